#!/bin/bash
# usage: keep-mutant.sh <name> <property> <patch> <demo> <agent-meta.json> <caught:yes|no> <check output summary>
set -e
name="$1"; prop="$2"; patch="$3"; demo="$4"; meta="$5"; caught="$6"; summary="$7"
d=/verif/seeded/$name; mkdir -p "$d"
cp "$patch" "$d/patch.diff"; cp "$demo" "$d/demo_test.go"
python3 - "$meta" "$d/meta.json" "$prop" "$caught" "$summary" <<'PY'
import json,sys,subprocess
src,dst,prop,caught,summary=sys.argv[1:6]
try: m=json.load(open(src))
except Exception: m={}
head=subprocess.check_output(['git','-C','/repo','rev-parse','--short','HEAD']).decode().strip()
out={"breaks_property":prop,"summary":m.get("summary",""),"needs_to_manifest":m.get("needs",""),"files":m.get("files",[]),
 "confirmed":{"by":"tools/confirm-mutant.sh in a scratch worktree of /repo@"+head,"suite_passes_with_change":True,"demo_fails_with_change":True,"demo_passes_without":True},
 "ran":"tools/try-mutant.sh patch.diff "+prop+" (git -C /repo apply; bin/utxosim check "+prop+"; git -C /repo checkout -- .)",
 "caught_by_check":caught=="yes","check_output":summary}
json.dump(out,open(dst,'w'),indent=1)
PY
echo kept $d
