#!/bin/bash
# usage: try-mutant.sh <patch.diff> <property id> [budget seconds]
# Applies the change to /repo, runs the property's check (no evidence written), undoes it.
set -u
patch=$(readlink -f "$1"); id="$2"; budget="${3:-20}"
cd /repo
if ! git diff --quiet; then echo "TROUBLE: /repo has uncommitted changes"; exit 2; fi
git apply "$patch" || { echo "TROUBLE: patch does not apply"; exit 2; }
/verif/bin/build.sh >/tmp/try.$$.log 2>&1 || { echo "BUILD-FAILED"; cat /tmp/try.$$.log; git -C /repo checkout -- .; exit 2; }
/verif/bin/utxosim check "$id" -budget "$budget" -no-evidence 2>&1 | grep -v "^utxosim check" | cut -c1-400
rc=${PIPESTATUS[0]}
git -C /repo checkout -- .
/verif/bin/build.sh >/dev/null 2>&1
rm -f /tmp/try.$$.log
exit $rc
