#!/bin/bash
# usage: confirm-mutant.sh <patch.diff> <demo_test.go>
# Confirms, in a scratch worktree of /repo's HEAD (outside /repo and /verif), that the change
# compiles, the existing suite still passes with it, the demonstration fails with it and
# passes without it.  Prints CONFIRMED or REJECTED:<reason>.
set -u
export GOFLAGS=-mod=mod GOPROXY=off GOSUMDB=off GOTOOLCHAIN=local
patch=$(readlink -f "$1"); demo=$(readlink -f "$2")
wt=$(mktemp -d /tmp/confirm.XXXXXX); rmdir "$wt"
git -C /repo worktree add -q --detach "$wt" HEAD || { echo "REJECTED:worktree"; exit 2; }
cleanup() { git -C /repo worktree remove --force "$wt" >/dev/null 2>&1; rm -rf "$wt"; }
trap cleanup EXIT
cd "$wt"
tname=$(grep -o 'func Test[A-Za-z0-9_]*' "$demo" | head -1 | sed 's/func //')
cp "$demo" "$wt/verif_demo_test.go"
if ! go test -vet=off -count=1 -timeout 10m -run "^${tname}\$" . >/tmp/confirm.$$.log 2>&1; then echo "REJECTED:demo fails on the original tree"; tail -5 /tmp/confirm.$$.log; exit 1; fi
rm "$wt/verif_demo_test.go"
if ! git apply "$patch" 2>/tmp/confirm.$$.log; then echo "REJECTED:patch does not apply"; cat /tmp/confirm.$$.log; exit 1; fi
if ! go build ./... >/tmp/confirm.$$.log 2>&1; then echo "REJECTED:does not compile"; exit 1; fi
if ! go test -vet=off -count=1 -timeout 25m ./... >/tmp/confirm.$$.log 2>&1; then echo "REJECTED:existing suite fails with the change"; grep -m3 -- "--- FAIL" /tmp/confirm.$$.log; exit 1; fi
cp "$demo" "$wt/verif_demo_test.go"
if go test -vet=off -count=1 -timeout 10m -run "^${tname}\$" . >/tmp/confirm.$$.log 2>&1; then echo "REJECTED:demo passes with the change"; exit 1; fi
echo "CONFIRMED"
rm -f /tmp/confirm.$$.log
