#!/usr/bin/env python3
"""Regenerates the table of seeded changes in DESIGN.md (between the SEEDED-TABLE markers) from seeded/*/meta.json."""
import json, glob, os, re
root = os.path.dirname(os.path.dirname(os.path.abspath(__file__)))
rows = []
for d in sorted(glob.glob(os.path.join(root, 'seeded', '*'))):
    m = json.load(open(os.path.join(d, 'meta.json')))
    out = m.get('check_output', '')
    cls = re.search(r'class=(\S+)', out)
    mini = re.search(r'minimised to (\d+) steps', out)
    summ = m.get('summary', '').replace('|', '/').replace('\n', ' ')
    if len(summ) > 170:
        summ = summ[:167] + '...'
    note = 'caught' if m.get('caught_by_check') else '**not by this check** — ' + out.replace('|', '/')[:230]
    if 'missed by the first version' in out or 'would have missed it' in out:
        note = 'caught after strengthening (§10)'
    if 'VERIF_HUGE' in out:
        note += ', thorough tier only'
    rows.append('| %s | %s | %s | %s | %s | %s |' % (os.path.basename(d), m.get('breaks_property'), summ, note, cls.group(1) if cls else '-', mini.group(1) if mini else '-'))
table = '| id | property | change | check of that property | violation class | minimised steps |\n|----|----------|--------|------------------------|-----------------|-----------------|\n' + '\n'.join(rows)
p = os.path.join(root, 'DESIGN.md')
s = open(p).read()
a, b = '<!-- SEEDED-TABLE-BEGIN -->', '<!-- SEEDED-TABLE-END -->'
s = s[:s.index(a) + len(a)] + '\n' + table + '\n' + s[s.index(b):]
open(p, 'w').write(s)
print(len(rows), 'rows')
