#!/bin/bash
# usage: batch-mutants.sh <property> [budget]   (mutants in /tmp/mutout/<property>/<k>/)
# Confirms each mutant in a scratch worktree, then runs the property's check against it.
prop="$1"; budget="${2:-20}"
for d in ${MUTOUT:-/tmp/mutout}/$prop/*/; do
  k=$(basename "$d")
  [ -f "$d/patch.diff" ] || continue
  c=$(/verif/tools/confirm-mutant.sh "$d/patch.diff" "$d/demo_test.go" 2>&1 | tail -1)
  if [ "$c" != "CONFIRMED" ]; then echo "$prop-$k: $c"; continue; fi
  out=$(timeout 900 /verif/tools/try-mutant.sh "$d/patch.diff" "$prop" "$budget" 2>&1); rc=$?
  line=$(echo "$out" | grep -m1 "^violation:" | cut -c1-260)
  echo "$prop-$k: CONFIRMED check_rc=$rc $line"
  echo "$out" > "$d/check_output.txt"
done
