#!/bin/bash
# Diagnostic (not a check): statement coverage of the library reached by the checks.
# Builds the simulator with coverage instrumentation of github.com/utreexo/utreexo, runs every
# check for a few seconds and prints per-function coverage below 100 %.
# usage: tools/coverage.sh [seconds per check]
set -e
secs="${1:-8}"
export GOFLAGS=-mod=mod GOPROXY=off GOSUMDB=off GOTOOLCHAIN=local
tmp=$(mktemp -d /tmp/utxocov.XXXXXX); trap 'rm -rf "$tmp"' EXIT
cd /verif/sim
CGO_ENABLED=0 go build -cover -coverpkg=github.com/utreexo/utreexo/...,utxosim -tags verif -o "$tmp/utxosim-cover" .
mkdir "$tmp/cov"
for p in C01 C02 C03 C04 C05 C06 C07 C08 C09 C10 C11 C13 C14 C17; do
  GOCOVERDIR="$tmp/cov" VERIF_DIR=/verif "$tmp/utxosim-cover" check $p -budget "$secs" -no-evidence >/dev/null 2>&1 || true
done
GOCOVERDIR="$tmp/cov" VERIF_DIR=/verif "$tmp/utxosim-cover" check C12 -budget "$secs" -no-evidence -engine sched >/dev/null 2>&1 || true
go tool covdata percent -i="$tmp/cov" | grep utreexo/utreexo
go tool covdata textfmt -i="$tmp/cov" -o "$tmp/cov.txt" -pkg=github.com/utreexo/utreexo
go tool cover -func="$tmp/cov.txt" | awk '$3+0 < 100' | sort -k3 -n
