#!/bin/sh
# Build the simulator against /repo's current working tree with the verif hooks on.
# Offline: modules come from the local module cache / vendored copies.
set -e
cd "$(dirname "$0")/../sim"
export GOFLAGS=-mod=mod GOPROXY=off GOSUMDB=off GOTOOLCHAIN=local
cp /repo/go.sum ./go.sum 2>/dev/null || true
CGO_ENABLED=0 go build -tags verif -o ../bin/utxosim .
# Second binary with the Go race detector (C12 engine sched-race).  Needs cgo and a C
# compiler; if it cannot be built the engine is skipped and says so.
rm -f ../bin/utxosim-race
CGO_ENABLED=1 go build -race -tags verif -o ../bin/utxosim-race . 2>/dev/null || echo "note: race build unavailable; C12 engine sched-race will be skipped" >&2
