#!/bin/sh
# Build the simulator against /repo's current working tree with the verif hooks on.
# Offline: modules come from the local module cache / vendored copies.
set -e
cd "$(dirname "$0")/../sim"
export GOFLAGS=-mod=mod GOPROXY=off GOSUMDB=off GOTOOLCHAIN=local CGO_ENABLED=0
cp /repo/go.sum ./go.sum 2>/dev/null || true
go build -tags verif -o ../bin/utxosim . 
