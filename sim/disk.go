package main

import (
	"bytes"
	"errors"
	"fmt"
	"io"

	u "github.com/utreexo/utreexo"
)

// Simulated disk and stream faults (C13).

// chunkReader is a conforming io.Reader that splits the stream into reads
// according to a mode:
//
//	0 whole (as much as asked), 1 one byte at a time, 2 at most half of what
//	is asked (at least 1), 3 seeded random sizes, 4 like 0 but the final bytes
//	arrive together with io.EOF, 5 like 3 and final bytes with io.EOF.
//
// It never returns (0, nil) for a non-empty buffer.
type chunkReader struct {
	data        []byte
	off         int
	mode        int
	rng         *Rng
	reads       int
	short       int // reads that returned fewer bytes than asked while more were available
	eofWithData int
	idle        bool
	zeroReads   int
}

func newChunkReader(data []byte, mode int, seed uint64) *chunkReader {
	return &chunkReader{data: data, mode: mode, rng: SubRng(seed, "chunk")}
}

func (c *chunkReader) Read(p []byte) (int, error) {
	if len(p) == 0 {
		return 0, nil
	}
	rem := len(c.data) - c.off
	if rem == 0 {
		return 0, io.EOF
	}
	want := len(p)
	if want > rem {
		want = rem
	}
	n := want
	if c.mode == 10 {
		// a reader that now and then reports "nothing happened" (0, nil), which the
		// io.Reader contract allows, and otherwise delivers seeded chunk sizes
		if !c.idle && c.rng.Pct(30) {
			c.idle = true
			c.zeroReads++
			return 0, nil
		}
		c.idle = false
		n = 1 + c.rng.Intn(want)
	}
	switch c.mode {
	case 1:
		n = 1
	case 2:
		n = (want + 1) / 2
	case 3, 5:
		n = 1 + c.rng.Intn(want)
	}
	c.reads++
	if n < len(p) && n < rem {
		c.short++
	}
	copy(p, c.data[c.off:c.off+n])
	c.off += n
	if (c.mode == 4 || c.mode == 5) && c.off == len(c.data) {
		c.eofWithData++
		return n, io.EOF
	}
	return n, nil
}

var errDisk = errors.New("simulated disk: write failed")

// countWriter is a healthy sink that only counts.
type countWriter struct{ n int }

func (c *countWriter) Write(p []byte) (int, error) { c.n += len(p); return len(p), nil }

// failWriter accepts bytes until `limit`, then fails.  partial=true makes the
// failing write report the bytes it did accept (n>0 with an error), partial=false
// reports 0 for the failing write.  limit<0 never fails.
type failWriter struct {
	buf     bytes.Buffer
	limit   int
	partial bool
	// transient: only the one write that crosses the limit fails; the sink works
	// again afterwards (an error that is not looked at is then not repeated)
	transient bool
	failed  bool
	writes  int
}

func (f *failWriter) Write(p []byte) (int, error) {
	f.writes++
	if f.limit < 0 {
		return f.buf.Write(p)
	}
	room := f.limit - f.buf.Len()
	if room >= len(p) {
		return f.buf.Write(p)
	}
	f.failed = true
	if f.transient {
		f.limit = -1
		return 0, errDisk
	}
	if f.partial && room > 0 {
		f.buf.Write(p[:room])
		return room, errDisk
	}
	return 0, errDisk
}

// failByteWriter: the same sink, also usable byte by byte (io.ByteWriter).
type failByteWriter struct{ *failWriter }

func (f *failByteWriter) WriteByte(c byte) error {
	_, err := f.failWriter.Write([]byte{c})
	return err
}

// ---------------------------------------------------------------------------
// node snapshots on the simulated disk

type snapshot struct {
	at                   int
	data                 []byte // what is on disk (possibly torn)
	full                 int    // length of the complete stream
	torn                 bool
	rem                  map[H]bool
	st                   u.Stump
	cp                   u.Proof
	ch                   []H
	held                 map[H]bool
	blk                  map[int]*nodeBlk
	ops                  []nodeOp
	bootAt               int
	hasUndo, hasCacheOps bool
}

type simDisk struct {
	snaps []*snapshot
}

func newSimDisk() *simDisk { return &simDisk{} }

func (w *World) serialize(n *Node, wr io.Writer) (int64, error) {
	switch {
	case n.pol != nil:
		return n.pol.WriteTo(wr)
	case n.mp != nil:
		c, err := n.mp.Write(wr)
		return int64(c), err
	}
	return 0, nil
}

// opSnapshot: the node writes itself to disk with the real serializer.
// s.Arg<0: complete and synced.  s.Arg>=0: the node crashes while writing;
// only the first Arg%len bytes reach the disk (torn write).
func (w *World) opSnapshot(n *Node, s *Step) {
	if n.crashed || n.dead {
		return
	}
	if n.tainted {
		w.rebuild(n, n.at)
		if n.dead {
			return
		}
	}
	w.stats.Events++
	snap := &snapshot{at: n.at, bootAt: n.bootAt, hasUndo: n.hasUndo, hasCacheOps: n.hasCacheOps}
	snap.ops = append([]nodeOp(nil), n.ops...)
	if n.isStumpy() {
		snap.st = copyStump(n.st)
		snap.cp = u.Proof{Targets: append([]uint64(nil), n.cp.Targets...), Proof: append([]H(nil), n.cp.Proof...)}
		snap.ch = append([]H(nil), n.ch...)
		snap.held = copySet(n.held)
		snap.blk = map[int]*nodeBlk{}
		for k, v := range n.blk {
			snap.blk[k] = v
		}
		n.disk.snaps = append(n.disk.snaps, snap)
		w.logf("%s: snapshot (harness-persisted) at block %d", n.name, n.at)
		return
	}
	fw := &failWriter{limit: -1}
	var cnt int64
	err, _ := guard(func() error { var e error; cnt, e = w.serialize(n, fw); return e })
	if err != nil {
		w.violate(n, "C13", "write-err", fmt.Sprintf("serializing to a healthy sink failed: %v", err))
		return
	}
	data := append([]byte(nil), fw.buf.Bytes()...)
	if cnt != int64(len(data)) {
		w.violate(n, "C13", "write-count", fmt.Sprintf("writer reported %d bytes, sink received %d", cnt, len(data)))
	}
	if n.pol != nil {
		var sz int
		guard(func() error { sz = n.pol.SerializeSize(); return nil })
		if sz != len(data) {
			w.violate(n, "C13", "serialize-size", fmt.Sprintf("SerializeSize predicted %d, stream has %d bytes", sz, len(data)))
		}
	}
	snap.full = len(data)
	snap.data = data
	snap.rem = copySet(n.remembered)
	snap.blk = map[int]*nodeBlk{}
	for k, v := range n.blk {
		snap.blk[k] = v
	}
	if s.Arg >= 0 && len(data) > 0 {
		cut := s.Arg % len(data)
		snap.data = data[:cut]
		snap.torn = true
		n.disk.snaps = append(n.disk.snaps, snap)
		w.stats.Faults["torn_snapshot_write"]++
		w.logf("%s: crash while writing snapshot at block %d: %d of %d bytes on disk", n.name, n.at, cut, len(data))
		n.crashed = true
		w.stats.Faults["crash"]++
		return
	}
	n.disk.snaps = append(n.disk.snaps, snap)
	w.stats.Faults["snapshot"]++
	w.logf("%s: snapshot at block %d (%d bytes)", n.name, n.at, len(data))
}

func (w *World) opCrash(n *Node, s *Step) {
	if n.crashed || n.dead {
		return
	}
	n.crashed = true
	w.stats.Faults["crash"]++
	w.logf("%s: crash (in-memory state lost)", n.name)
}

// restartNode: restore from the newest usable snapshot, then catch up.
func (w *World) restartNode(n *Node, chunkMode int) {
	if n.dead {
		return
	}
	w.stats.Events++
	w.stats.Faults["restart"]++
	n.crashed = false
	if chunkMode < 0 {
		chunkMode = -chunkMode
	}
	chunkMode %= 6
	restored := false
	for i := len(n.disk.snaps) - 1; i >= 0 && !restored; i-- {
		snap := n.disk.snaps[i]
		if n.isStumpy() {
			n.st = copyStump(snap.st)
			n.cp = u.Proof{Targets: append([]uint64(nil), snap.cp.Targets...), Proof: append([]H(nil), snap.cp.Proof...)}
			n.ch = append([]H(nil), snap.ch...)
			n.held = copySet(snap.held)
			n.blk = map[int]*nodeBlk{}
			for k, v := range snap.blk {
				n.blk[k] = v
			}
			n.at = snap.at
			n.ops = append([]nodeOp(nil), snap.ops...)
			restored = true
			break
		}
		cr := newChunkReader(snap.data, chunkMode, mix64(w.sc.Seed^uint64(w.stats.Events)))
		var cnt int64
		var pol *u.Pollard
		var mp *u.MapPollard
		err, panicked := guard(func() error {
			if n.pol != nil || n.cfg.Kind == "pollard" {
				var e error
				cnt, pol, e = u.RestorePollardFrom(cr)
				return e
			}
			m := u.NewMapPollard(n.cfg.Kind == "mapfull" || n.cfg.FullRoots)
			if n.cfg.DetMaps {
				sd := mix64(w.sc.Seed ^ uint64(n.idx+1)*0x51ed27 ^ uint64(w.stats.Events))
				m.Nodes, m.CachedLeaves = newDetNodes(sd), newDetCached(sd^0x77)
			}
			c, e := m.Read(cr)
			cnt = int64(c)
			mp = &m
			return e
		})
		w.stats.Reach[fmt.Sprintf("restore_chunkmode_%d", chunkMode)]++
		if cr.short > 0 {
			w.stats.Faults["short_read"] += cr.short
		}
		if cr.eofWithData > 0 {
			w.stats.Faults["eof_with_data"]++
		}
		if panicked {
			w.violate(n, "C13", "restore-panic", fmt.Sprintf("restore panicked (torn=%v, %d of %d bytes): %v", snap.torn, len(snap.data), snap.full, err))
			continue
		}
		if err != nil {
			if snap.torn {
				w.stats.Reach["truncated_snapshot_rejected"]++
				w.logf("%s: torn snapshot rejected: %v", n.name, err)
				continue
			}
			w.violate(n, "C13", fmt.Sprintf("restore-err/chunk%d", chunkMode), fmt.Sprintf("restoring an intact snapshot failed (reader mode %d): %v", chunkMode, err))
			continue
		}
		if snap.torn {
			w.stats.Reach["truncated_snapshot_accepted"]++
		} else if cnt != int64(len(snap.data)) {
			w.violate(n, "C13", "read-count", fmt.Sprintf("restore reported %d bytes consumed, stream has %d", cnt, len(snap.data)))
		}
		if pol != nil {
			n.pol, n.acc = pol, pol
		} else {
			var op []H
			if n.big() {
				op = n.bigRoots()
			}
			n.mp = &mapView{m: mp, B: n.cfg.Big, opaque: op, node: n}
			n.acc = n.mp
		}
		n.remembered = copySet(snap.rem)
		n.blk = map[int]*nodeBlk{}
		for k, v := range snap.blk {
			n.blk[k] = v
		}
		n.at = snap.at
		n.bootAt = snap.bootAt
		n.ops = append(append([]nodeOp(nil), snap.ops...), nodeOp{kind: "restore"})
		n.hasUndo, n.hasCacheOps = snap.hasUndo, snap.hasCacheOps
		n.hasRestore = true
		n.tainted = false
		restored = true
		w.logf("%s: restored from snapshot at block %d (reader mode %d, torn=%v)", n.name, snap.at, chunkMode, snap.torn)
		n.ctxTarget, n.ctxSeed = n.at, mix64(w.sc.Seed^uint64(w.stats.Events)*0x9e37^uint64(n.idx)<<32)
		// a restored instance must be observationally identical to the original
		w.checkRestored(n, snap)
	}
	if !restored {
		if n.cfg.FromRoots > 0 {
			n.offline = true
		} else {
			w.initNode(n)
		}
		w.logf("%s: restarted from genesis (no usable snapshot)", n.name)
	}
	if w.stop {
		return
	}
	w.syncNode(n, n.wantTip)
}

func (w *World) checkRestored(n *Node, snap *snapshot) {
	st := w.blocks[snap.at].Post
	save := w.opt.Oracles
	// full observation set for the restored instance
	if save != nil {
		o := map[string]bool{}
		for k, v := range save {
			o[k] = v
		}
		o["lookup"], o["prove"] = true, true
		w.opt.Oracles = o
	}
	w.checkNode(n, st, "restore")
	w.opt.Oracles = save
}
