package main

// Reference model ("slot forest"), the oracle of the simulator.
//
// It is derived from the property text only: N leaves were ever added; each
// insertion slot holds a hash and an alive bit; trees are the binary digits of
// N; a subtree without survivors contributes nothing, a subtree whose sibling
// has no survivors stands in for its parent, otherwise a node is the SHA-512/256
// of its two children; a tree without survivors has the all-zero root.
// Positions follow the geometry rowStart(r,h) = 2^(h+1) - 2^(h+1-r), computed
// with plain arithmetic.  Nothing here calls into the library under test.

import (
	"crypto/sha512"
	"sort"

	u "github.com/utreexo/utreexo"
)

type H = u.Hash

var zeroH H

func modelParentHash(l, r H) H {
	var buf [64]byte
	copy(buf[:32], l[:])
	copy(buf[32:], r[:])
	return H(sha512.Sum512_256(buf[:]))
}

// State is an immutable model state (one per block of the simulated chain).
type State struct {
	N      uint64
	Leaves []H
	Alive  []bool
	lay    *Layout
	slot   map[H]int
	// Sparse states (engine "tall"): the slots [0, Base) are covered by opaque
	// complete subtrees — one per binary digit of Base, biggest first — of which
	// only the hash is known (all-zero: no survivors).  Leaves[i] is slot Base+i.
	// N counts the opaque slots too.  Base == 0 is the ordinary dense state.
	Base   uint64
	Opaque []OpaqueUnit
}

// OpaqueUnit is a complete subtree over the slots [Lo, Lo+2^Ht) that the model
// knows only by its hash.
type OpaqueUnit struct {
	Lo   uint64
	Ht   uint8
	Hash H
}

// NewSparseState: an accumulator of `base` leaves whose trees are opaque.
func NewSparseState(base uint64, hashes []H) *State {
	s := &State{N: base, Base: base}
	for i, t := range treesOf(base) {
		s.Opaque = append(s.Opaque, OpaqueUnit{t.lo, t.h, hashes[i]})
	}
	return s
}

func (s *State) unitAt(lo uint64) *OpaqueUnit {
	for i := range s.Opaque {
		u := &s.Opaque[i]
		if lo >= u.Lo && lo-u.Lo < uint64(1)<<u.Ht {
			return u
		}
	}
	return nil
}

// isUnit: do the slots [lo, lo+2^h) coincide with one opaque subtree?
func (s *State) isUnit(lo uint64, h uint8) bool {
	if s.Base == 0 || lo >= s.Base {
		return false
	}
	u := s.unitAt(lo)
	return u != nil && u.Lo == lo && u.Ht == h
}

func NewState() *State { return &State{} }

func (s *State) clone() *State {
	c := &State{N: s.N, Base: s.Base, Opaque: s.Opaque}
	c.Leaves = append(make([]H, 0, len(s.Leaves)+8), s.Leaves...)
	c.Alive = append(make([]bool, 0, len(s.Alive)+8), s.Alive...)
	return c
}

func (s *State) slotOf(h H) (int, bool) {
	if s.slot == nil {
		s.slot = make(map[H]int, len(s.Leaves))
		for i, l := range s.Leaves {
			if s.Alive[i] {
				s.slot[l] = i
			}
		}
	}
	i, ok := s.slot[h]
	return i, ok
}

// WithDels returns the state with the given live leaves removed.
func (s *State) WithDels(dels []H) *State {
	c := s.clone()
	for _, d := range dels {
		if i, ok := s.slotOf(d); ok {
			c.Alive[i] = false
		}
	}
	return c
}

// WithAdds returns the state with the hashes appended.
func (s *State) WithAdds(adds []H) *State {
	c := s.clone()
	for _, a := range adds {
		c.Leaves = append(c.Leaves, a)
		c.Alive = append(c.Alive, true)
		c.N++
	}
	return c
}

func (s *State) Live() []H {
	out := make([]H, 0, len(s.Leaves))
	for i, l := range s.Leaves {
		if s.Alive[i] {
			out = append(out, l)
		}
	}
	return out
}

func (s *State) NumLive() int {
	n := 0
	for _, a := range s.Alive {
		if a {
			n++
		}
	}
	return n
}

func (s *State) IsLive(h H) bool { _, ok := s.slotOf(h); return ok }

// Key is a digest of (N, alive bitmap, leaf identity) used to count distinct states.
func (s *State) Key() uint64 {
	k := mix64(s.N)
	for i, a := range s.Alive {
		if a {
			k = mix64(k ^ uint64(i)*0x9e37 ^ uint64(s.Leaves[i][0])<<40 ^ uint64(s.Leaves[i][1])<<48)
		}
	}
	return k
}

// ShapeKey is a digest of (N, alive bitmap) only.
func (s *State) ShapeKey() uint64 {
	k := mix64(s.N ^ 0xabcdef)
	for i, a := range s.Alive {
		if a {
			k = mix64(k ^ uint64(i))
		}
	}
	return k
}

type mtree struct {
	lo uint64
	h  uint8
}

func treesOf(n uint64) []mtree {
	var ts []mtree
	lo := uint64(0)
	for h := 63; h >= 0; h-- {
		if n&(uint64(1)<<uint(h)) != 0 {
			ts = append(ts, mtree{lo, uint8(h)})
			lo += uint64(1) << uint(h)
		}
	}
	return ts
}

func rowsFor(n uint64) uint8 {
	r := uint8(0)
	for r < 64 && (uint64(1)<<r) < n {
		r++
	}
	return r
}

// rowStart: first position of row r in a forest of total height hh.
func rowStart(r, hh uint8) uint64 {
	return (uint64(1) << (hh + 1)) - (uint64(1) << (hh + 1 - r))
}

// RO is a (row, offset) coordinate, independent of the allocated height.
type RO struct {
	R uint8
	O uint64
}

func (p RO) Pos(hh uint8) uint64 { return rowStart(p.R, hh) + p.O }
func (p RO) Parent() RO         { return RO{p.R + 1, p.O / 2} }
func (p RO) Sib() RO            { return RO{p.R, p.O ^ 1} }
func (p RO) Left() RO           { return RO{p.R - 1, p.O * 2} }
func (p RO) Right() RO          { return RO{p.R - 1, p.O*2 + 1} }

// roOfPos decodes a position in a forest of height hh; ok=false if the
// position is beyond the last row.
func roOfPos(pos uint64, hh uint8) (RO, bool) {
	for r := uint8(0); r <= hh; r++ {
		st := rowStart(r, hh)
		width := uint64(1) << (hh - r)
		if pos >= st && pos-st < width {
			return RO{r, pos - st}, true
		}
	}
	return RO{}, false
}

// Layout is the placed forest of a state.
type Layout struct {
	N       uint64
	R       uint8          // minimal rows for N
	Nodes   map[RO]H       // every node that exists (leaf or internal)
	IsLeaf  map[RO]bool
	LeafAt  map[H]RO       // live leaf -> place
	Log     map[RO]mtree   // logical subtree standing at a place (topmost one)
	RootsAt []RO           // places of tree roots, biggest tree first (incl. empty trees)
	Roots   []H            // root hashes, zero for empty trees
	isRoot  map[RO]bool
	levels  [][]H
	oks     [][]bool
	Opaque  map[RO]bool // places of opaque subtrees (sparse states)
	sp      *State      // set for sparse states: sub() recurses instead of reading levels
	memo    map[mtree]subEntry
}

type subEntry struct {
	h  H
	ok bool
}

func (s *State) Layout() *Layout {
	if s.lay != nil {
		return s.lay
	}
	L := &Layout{N: s.N, R: rowsFor(s.N), Nodes: map[RO]H{}, IsLeaf: map[RO]bool{},
		LeafAt: map[H]RO{}, Log: map[RO]mtree{}, isRoot: map[RO]bool{}, Opaque: map[RO]bool{}}
	if s.Base != 0 {
		L.sp = s
		L.memo = map[mtree]subEntry{}
	}
	// pass 1: logical subtree hashes, bottom-up, dense per level
	L.levels = append(L.levels, s.Leaves)
	L.oks = append(L.oks, s.Alive)
	for h := 1; L.sp == nil && (s.N>>uint(h)) > 0; h++ {
		n := int(s.N >> uint(h))
		lv := make([]H, n)
		ok := make([]bool, n)
		pl, po := L.levels[h-1], L.oks[h-1]
		for i := 0; i < n; i++ {
			lo, ro := po[2*i], po[2*i+1]
			switch {
			case lo && ro:
				lv[i] = modelParentHash(pl[2*i], pl[2*i+1])
				ok[i] = true
			case lo:
				lv[i], ok[i] = pl[2*i], true
			case ro:
				lv[i], ok[i] = pl[2*i+1], true
			}
		}
		L.levels = append(L.levels, lv)
		L.oks = append(L.oks, ok)
	}
	// pass 2: placement, top-down
	for _, t := range treesOf(s.N) {
		root := RO{t.h, t.lo >> t.h}
		L.RootsAt = append(L.RootsAt, root)
		L.isRoot[root] = true
		hash, _ := L.sub(t.lo, t.h)
		L.Roots = append(L.Roots, hash)
		L.place(t.lo, t.h, root)
	}
	s.lay = L
	return L
}

// sub: hash of the logical subtree covering slots [lo, lo+2^h).
func (L *Layout) sub(lo uint64, h uint8) (H, bool) {
	if L.sp != nil {
		return L.subSparse(lo, h)
	}
	i := lo >> h
	if int(h) >= len(L.levels) || i >= uint64(len(L.levels[h])) {
		return H{}, false
	}
	if !L.oks[h][i] {
		return H{}, false
	}
	return L.levels[h][i], true
}

// subSparse is sub for a sparse state: the same three rules, by recursion over
// the slot ranges, stopping at opaque subtrees.
func (L *Layout) subSparse(lo uint64, h uint8) (H, bool) {
	k := mtree{lo, h}
	if e, ok := L.memo[k]; ok {
		return e.h, e.ok
	}
	s := L.sp
	var e subEntry
	switch {
	case lo >= s.N:
	case s.isUnit(lo, h):
		e.h = s.unitAt(lo).Hash
		e.ok = e.h != zeroH
	case h == 0:
		if lo < s.Base {
			panic("model: descended into an opaque subtree")
		}
		if s.Alive[lo-s.Base] {
			e.h, e.ok = s.Leaves[lo-s.Base], true
		}
	default:
		half := uint64(1) << (h - 1)
		lh, lok := L.subSparse(lo, h-1)
		rh, rok := L.subSparse(lo+half, h-1)
		switch {
		case lok && rok:
			e.h, e.ok = modelParentHash(lh, rh), true
		case lok:
			e.h, e.ok = lh, true
		case rok:
			e.h, e.ok = rh, true
		}
	}
	L.memo[k] = e
	return e.h, e.ok
}

func (L *Layout) place(lo uint64, h uint8, at RO) {
	hash, ok := L.sub(lo, h)
	if !ok {
		return
	}
	if _, seen := L.Log[at]; !seen {
		L.Log[at] = mtree{lo, h}
	}
	if L.sp != nil && L.sp.isUnit(lo, h) {
		L.Nodes[at] = hash
		L.Opaque[at] = true
		return
	}
	if h == 0 {
		L.Nodes[at] = hash
		L.LeafAt[hash] = at
		L.IsLeaf[at] = true
		return
	}
	half := uint64(1) << (h - 1)
	_, lok := L.sub(lo, h-1)
	_, rok := L.sub(lo+half, h-1)
	switch {
	case lok && rok:
		L.Nodes[at] = hash
		L.place(lo, h-1, at.Left())
		L.place(lo+half, h-1, at.Right())
	case lok:
		L.place(lo, h-1, at)
	case rok:
		L.place(lo+half, h-1, at)
	}
}

func (L *Layout) IsRoot(p RO) bool { return L.isRoot[p] }

// RootOf returns the index (into RootsAt) of the tree that contains place p.
func (L *Layout) RootOf(p RO) int {
	for !L.isRoot[p] {
		if p.R > 64 {
			return -1
		}
		p = p.Parent()
	}
	for i, r := range L.RootsAt {
		if r == p {
			return i
		}
	}
	return -1
}

// HashAt returns the hash of the node at position pos (numbering for total
// height hh) and whether a node exists there.
func (L *Layout) HashAt(pos uint64, hh uint8) (H, bool) {
	ro, ok := roOfPos(pos, hh)
	if !ok {
		return H{}, false
	}
	h, ok := L.Nodes[ro]
	return h, ok
}

// ProofPlaces: the canonical proof positions for a set of target places:
// siblings on the targets' paths that are neither targets nor computable,
// ordered by row then offset.
func (L *Layout) ProofPlaces(targets []RO) []RO {
	have := map[RO]bool{}
	for _, t := range targets {
		have[t] = true
	}
	var need []RO
	maxRow := uint8(0)
	for _, r := range L.RootsAt {
		if r.R > maxRow {
			maxRow = r.R
		}
	}
	for r := uint8(0); r <= maxRow; r++ {
		var cur []RO
		for p := range have {
			if p.R == r {
				cur = append(cur, p)
			}
		}
		sort.Slice(cur, func(i, j int) bool { return cur[i].O < cur[j].O })
		for _, p := range cur {
			if L.isRoot[p] {
				continue
			}
			if !have[p.Sib()] {
				need = append(need, p.Sib())
			}
			have[p.Parent()] = true
		}
	}
	sortRO(need)
	return need
}

// Computable returns the strict ancestors of the targets (up to and including
// roots) — the positions a verifier computes from targets + proof.
func (L *Layout) Computable(targets []RO) map[RO]bool {
	out := map[RO]bool{}
	for _, t := range targets {
		p := t
		for !L.isRoot[p] {
			p = p.Parent()
			out[p] = true
		}
	}
	return out
}

func sortRO(a []RO) {
	sort.Slice(a, func(i, j int) bool {
		if a[i].R != a[j].R {
			return a[i].R < a[j].R
		}
		return a[i].O < a[j].O
	})
}

// CanonProof returns the canonical proof for the live leaves `hashes` in
// request order, positions numbered for the minimal height.
func (L *Layout) CanonProof(hashes []H) (u.Proof, bool) {
	var pr u.Proof
	ts := make([]RO, 0, len(hashes))
	pr.Targets = make([]uint64, 0, len(hashes))
	for _, h := range hashes {
		ro, ok := L.LeafAt[h]
		if !ok {
			return pr, false
		}
		ts = append(ts, ro)
		pr.Targets = append(pr.Targets, ro.Pos(L.R))
	}
	for _, ro := range L.ProofPlaces(ts) {
		pr.Proof = append(pr.Proof, L.Nodes[ro])
	}
	return pr, true
}

// CanonProofPlaces is CanonProof for arbitrary node places (used by C14).
func (L *Layout) CanonProofForPlaces(ts []RO) u.Proof {
	var pr u.Proof
	for _, t := range ts {
		pr.Targets = append(pr.Targets, t.Pos(L.R))
	}
	for _, ro := range L.ProofPlaces(ts) {
		pr.Proof = append(pr.Proof, L.Nodes[ro])
	}
	return pr
}

// TreesWith returns the indexes (into Roots) of trees containing the targets, ascending.
func (L *Layout) TreesWith(hashes []H) []int {
	seen := map[int]bool{}
	for _, h := range hashes {
		if ro, ok := L.LeafAt[h]; ok {
			seen[L.RootOf(ro)] = true
		}
	}
	var out []int
	for i := range seen {
		out = append(out, i)
	}
	sort.Ints(out)
	return out
}

// AllNodeHashes returns the set of hashes of internal (non-leaf) nodes.
func (L *Layout) InternalHashes() []H {
	var out []H
	for ro, h := range L.Nodes {
		if !L.IsLeaf[ro] {
			out = append(out, h)
		}
	}
	sort.Slice(out, func(i, j int) bool { return lessH(out[i], out[j]) })
	return out
}

func lessH(a, b H) bool {
	for i := 0; i < 32; i++ {
		if a[i] != b[i] {
			return a[i] < b[i]
		}
	}
	return false
}

func sortH(a []H) { sort.Slice(a, func(i, j int) bool { return lessH(a[i], a[j]) }) }

// ---------------------------------------------------------------------------
// Expected update data (C11), derived from the property text.

type expUpdate struct {
	PrevNumLeaves uint64
	ToDestroy     []uint64
	DelPos        []uint64
	DelHash       []H
	AddPos        []uint64
	AddHash       []H
}

// ExpectedUpdate computes what a verifier-state update must report for the
// block (dels on pre, then adds).
func ExpectedUpdate(pre, mid, post *State, dels, adds []H) expUpdate {
	var e expUpdate
	preL, midL, postL := pre.Layout(), mid.Layout(), post.Layout()
	e.PrevNumLeaves = pre.N
	// deletions: every pre-block node on a path target->root with the hash its
	// logical subtree has once deletions are applied.
	exp := map[uint64]H{}
	for _, d := range dels {
		ro, ok := preL.LeafAt[d]
		if !ok {
			continue
		}
		for {
			lg := preL.Log[ro]
			hh, _ := midL.sub(lg.lo, lg.h)
			exp[ro.Pos(preL.R)] = hh
			if preL.isRoot[ro] {
				break
			}
			ro = ro.Parent()
		}
	}
	for p := range exp {
		e.DelPos = append(e.DelPos, p)
	}
	sort.Slice(e.DelPos, func(i, j int) bool { return e.DelPos[i] < e.DelPos[j] })
	for _, p := range e.DelPos {
		e.DelHash = append(e.DelHash, exp[p])
	}
	// destroyed: empty trees of mid that are not trees of post (the additions
	// merged them away), in post coordinates, ascending row = order of destruction.
	postTrees := map[mtree]bool{}
	for _, tr := range treesOf(post.N) {
		postTrees[tr] = true
	}
	mt := treesOf(mid.N)
	for i := len(mt) - 1; i >= 0; i-- {
		tr := mt[i]
		if _, ok := midL.sub(tr.lo, tr.h); !ok && !postTrees[tr] {
			e.ToDestroy = append(e.ToDestroy, RO{tr.h, tr.lo >> tr.h}.Pos(postL.R))
		}
	}
	// additions: every added leaf, and every node that became a child of a
	// parent created by the additions, at final positions.
	// (a parent is "created by the additions" iff its logical subtree contains
	// a newly added slot; decided by slots, not by hash, because a leaf may
	// legally carry the same 32 bytes as some internal node)
	_ = midL
	expA := map[uint64]H{}
	for i := mid.N; i < post.N; i++ {
		a := post.Leaves[i-post.Base]
		expA[postL.LeafAt[a].Pos(postL.R)] = a
	}
	for ro := range postL.Nodes {
		if postL.IsLeaf[ro] {
			continue
		}
		lg := postL.Log[ro]
		if lg.lo+(uint64(1)<<lg.h) <= mid.N {
			continue // entirely made of old slots: not touched by the additions
		}
		for _, c := range []RO{ro.Left(), ro.Right()} {
			if ch, ok := postL.Nodes[c]; ok {
				expA[c.Pos(postL.R)] = ch
			}
		}
	}
	for p := range expA {
		e.AddPos = append(e.AddPos, p)
	}
	sort.Slice(e.AddPos, func(i, j int) bool { return e.AddPos[i] < e.AddPos[j] })
	for _, p := range e.AddPos {
		e.AddHash = append(e.AddHash, expA[p])
	}
	return e
}
