package main

import (
	"fmt"
	"sort"

	u "github.com/utreexo/utreexo"
)

// reencode: a relay rewrites an honest block message (C05): permuted targets,
// trailing junk proof hashes, proofs re-assembled through AddProof /
// GetProofSubset.  The rewritten message is in scope only if the stand-alone
// verifier accepts it and its targets are exactly the positions of the block's
// deleted leaves; otherwise it is discarded (ok=false).
func (w *World) reencode(n *Node, b *Block) (dels []H, proof u.Proof, ok bool) {
	r := SubRng(b.Seed^uint64(n.idx+1)*0x7f4a7c15, "reenc")
	L := b.Pre.Layout()
	if len(b.Dels) == 0 {
		// a block without deletions whose proof still carries (unused) hashes, and
		// an empty non-nil deletion list: another accepted encoding of "nothing"
		if !r.Pct(40) {
			return nil, u.Proof{}, false
		}
		proof = u.Proof{Targets: []uint64{}}
		for j := 0; j < 1+r.Intn(3); j++ {
			var junk H
			junk[0], junk[1], junk[2], junk[31] = 0xee, byte(j), byte(r.Next()), 0x5b
			proof.Proof = append(proof.Proof, junk)
		}
		dels = []H{}
		if r.Bool() {
			dels, proof.Targets = nil, nil
		}
		stump := u.Stump{Roots: append([]H(nil), L.Roots...), NumLeaves: b.Pre.N}
		if err, _ := guard(func() error { _, e := u.Verify(stump, dels, proof); return e }); err != nil {
			w.stats.Reach["reenc_discarded"]++
			return nil, u.Proof{}, false
		}
		w.stats.Faults["reencoded_nodels+junk"]++
		w.logf("%s: relay re-encoded block %d proof (no deletions, %d unused hashes)", n.name, b.ID, len(proof.Proof))
		return dels, proof, true
	}
	dels = append([]H(nil), b.Dels...)
	proof = u.Proof{Targets: append([]uint64(nil), b.Proof.Targets...), Proof: append([]H(nil), b.Proof.Proof...)}
	mode := r.Weighted(3, 3, 2, 2, 2)
	how := ""
	switch mode {
	case 0: // permute targets with hashes in parallel
		perm(r, dels, proof.Targets)
		how = "permuted"
	case 1: // junk
		how = "junk"
	case 2: // sorted by position (another legal order)
		idx := make([]int, len(dels))
		for i := range idx {
			idx[i] = i
		}
		sort.Slice(idx, func(i, j int) bool { return proof.Targets[idx[i]] < proof.Targets[idx[j]] })
		d2, t2 := make([]H, len(dels)), make([]uint64, len(dels))
		for i, k := range idx {
			d2[i], t2[i] = dels[k], proof.Targets[k]
		}
		dels, proof.Targets = d2, t2
		how = "sorted"
	case 3: // re-assembled through AddProof of two halves
		if len(dels) >= 2 {
			k := 1 + r.Intn(len(dels)-1)
			a, bb := dels[:k], dels[k:]
			pa, _ := L.CanonProof(a)
			pb, _ := L.CanonProof(bb)
			var hs []H
			var pc u.Proof
			err, _ := guard(func() error { hs, pc = u.AddProof(pa, pb, a, bb, b.Pre.N); return nil })
			if err != nil {
				return nil, u.Proof{}, false
			}
			dels, proof = hs, pc
			how = "addproof"
		}
	case 4: // restricted from a larger proof through GetProofSubset
		live := b.Pre.Live()
		inDel := map[H]bool{}
		for _, d := range dels {
			inDel[d] = true
		}
		big := append([]H(nil), dels...)
		for _, h := range live {
			if !inDel[h] && r.Pct(30) && len(big) < len(dels)+12 {
				big = append(big, h)
			}
		}
		r.Shuffle(len(big), func(i, j int) { big[i], big[j] = big[j], big[i] })
		pbig, _ := L.CanonProof(big)
		wants := make([]uint64, len(dels))
		for i, d := range dels {
			wants[i] = L.LeafAt[d].Pos(L.R)
		}
		perm(r, dels, wants)
		var hs []H
		var ps u.Proof
		err, _ := guard(func() error { var e error; hs, ps, e = u.GetProofSubset(pbig, big, wants, b.Pre.N); return e })
		if err != nil {
			return nil, u.Proof{}, false
		}
		dels, proof = hs, ps
		how = "proofsubset"
	}
	if r.Pct(50) || mode == 1 {
		nj := 1 + r.Intn(3)
		for j := 0; j < nj; j++ {
			var junk H
			junk[0], junk[1], junk[2], junk[31] = 0xee, byte(j), byte(r.Next()), 0x5a
			proof.Proof = append(proof.Proof, junk)
		}
		how += "+junk"
	}
	// scope guard
	if len(dels) != len(b.Dels) || len(proof.Targets) != len(dels) {
		w.stats.Reach["reenc_discarded"]++
		return nil, u.Proof{}, false
	}
	seen := map[H]bool{}
	for i, d := range dels {
		ro, live := L.LeafAt[d]
		if !live || seen[d] || ro.Pos(L.R) != proof.Targets[i] {
			w.stats.Reach["reenc_discarded"]++
			return nil, u.Proof{}, false
		}
		seen[d] = true
	}
	stump := u.Stump{Roots: append([]H(nil), L.Roots...), NumLeaves: b.Pre.N}
	err, _ := guard(func() error { _, e := u.Verify(stump, dels, proof); return e })
	if err != nil {
		w.stats.Reach["reenc_discarded"]++
		return nil, u.Proof{}, false
	}
	w.stats.Faults["reencoded_"+how]++
	w.logf("%s: relay re-encoded block %d proof (%s)", n.name, b.ID, how)
	dels, proof.Targets, proof.Proof = padH(dels), padU(proof.Targets), padH(proof.Proof)
	return dels, proof, true
}

func perm(r *Rng, hs []H, ts []uint64) {
	r.Shuffle(len(hs), func(i, j int) {
		hs[i], hs[j] = hs[j], hs[i]
		ts[i], ts[j] = ts[j], ts[i]
	})
}

var _ = fmt.Sprintf
