package main

// Engine "tall": a roots-only verifier, a light client and a partial map forest
// whose simulated leaves merge with, and are lifted over, trees of 2^31 and
// more leaves.
//
// The big-offset embedding of big.go keeps the simulated forest inside one
// 2^20 block that never carries into the opaque big trees, so no node is ever
// lifted across more than 20 rows.  Here the accumulator starts as
// Stump{NumLeaves: Base, Roots: opaque} where Base ends in a run of 1..45 set
// bits above a small block of 2^G slots: once the simulated leaves fill that
// block, one addition carries through the whole run — merging with the opaque
// trees that have survivors and being lifted over the ones that have none —
// and every later deletion proof climbs through those rows.  The oracle is the
// sparse form of the reference model (model.go: State.Base / Opaque), which
// applies the same three rules by recursion and stops at opaque subtrees; no
// position is translated, all values are the library's own 64-bit ones.
//
// Steps: block (deletions among the live simulated leaves with the model's
// canonical proof, additions, remember indexes) and undo (newest block first).
// Fault dimension: reorganisation (undo/redo at any depth) around the carry.

import (
	"encoding/json"
	"fmt"
	"math/bits"
	"sort"
	"time"

	u "github.com/utreexo/utreexo"
)

type TallStep struct {
	Op   string `json:"op"` // block | undo
	Dels []int  `json:"dels,omitempty"`
	Adds int    `json:"adds,omitempty"`
	Rem  []int  `json:"rem,omitempty"`
	Seed uint64 `json:"seed,omitempty"`
}

type TallCase struct {
	Seed  uint64     `json:"seed"`
	Base  uint64     `json:"base"`
	Empty uint64     `json:"empty"` // bit r set: the opaque tree of row r has no survivors
	Forest bool      `json:"forest"` // also run a partial map forest created from the roots
	Steps []TallStep `json:"steps"`
}

func (c *TallCase) Size() int { return len(c.Steps) }

type tallEngine struct{ prop string }

func (e *tallEngine) Name() string     { return "tall" }
func (e *tallEngine) Property() string { return e.prop }
func (e *tallEngine) Describe() (string, []string, []string) {
	return "one case = a verifier state of 2^31..2^62 leaves whose leaf count ends in a run of set bits, a seeded history of blocks and undo steps on the simulated leaves right above it (the carry through the run happens inside the history); non-trivial = the carry happened and the property's own oracle ran; distinct = distinct event-log digests",
		[]string{"Stump.Update", "Verify", "Proof.Update", "Proof.Undo", "NewMapPollardFromRoots + MapPollard.Verify(remember)/Modify/Undo/Prove (partial, TotalRows 63)"},
		[]string{"block source (model's canonical proofs)", "opaque big trees (random hashes)", "undo data kept by the harness"}
}

func tallOpaqueHashes(base, empty, seed uint64) []H {
	var out []H
	for _, t := range treesOf(base) {
		var h H
		if empty&(uint64(1)<<t.h) == 0 {
			x := mix64(seed ^ uint64(t.h)*0x9e3779b97f4a7c15)
			for k := range h {
				if k%8 == 0 {
					x = mix64(x)
				}
				h[k] = byte(x >> (uint(k%8) * 8))
			}
			h[31] |= 1
		}
		out = append(out, h)
	}
	return out
}

func (e *tallEngine) genCase(seed uint64) *TallCase {
	r := SubRng(seed, "tall")
	c := &TallCase{Seed: seed}
	g := uint(r.Intn(6))
	if r.Pct(20) {
		g = 0
	}
	run := uint([]int{1, 2, 4, 7, 9, 20, 30, 31, 33, 45}[r.Intn(10)])
	if r.Pct(40) {
		run = 31 + uint(r.Intn(8))
	}
	if e.prop == "C06" || e.prop == "C09" {
		run = 1 + uint(r.Intn(int(12-g))) // these two checks are about the map forest (see below)
	}
	top := g + run + 1
	var hi uint64
	if top < 62 {
		hi = (r.Next() >> (64 - (62 - top))) << top
		if r.Pct(30) {
			hi = 0
		}
	}
	c.Base = hi | ((uint64(1)<<run - 1) << g)
	// which opaque trees are empty
	switch r.Intn(6) {
	case 0:
	case 1:
		c.Empty = ^uint64(0)
	case 2:
		c.Empty = uint64(1) << (g + run - 1) // only the top of the run
	case 3:
		c.Empty = (uint64(1)<<run - 1) << g &^ (uint64(1) << g) // all of the run but its lowest tree
	default:
		c.Empty = r.Next() & r.Next()
		if r.Bool() {
			c.Empty |= r.Next()
		}
	}
	// MapPollard.moveUpDescendants visits 2^row positions when a node of that row
	// is lifted over an empty root (it descends whether or not a node is stored), so
	// the map forest only joins when the run stays below row 13 (DESIGN 4.16).
	c.Forest = (r.Pct(60) || e.prop == "C06" || e.prop == "C09") && g+run <= 12
	blockSize := 1 << g
	n := 3 + r.Intn(10)
	for i := 0; i < n; i++ {
		if i > 0 && r.Pct(22) {
			k := 1 + r.Intn(3)
			for j := 0; j < k; j++ {
				c.Steps = append(c.Steps, TallStep{Op: "undo"})
			}
			continue
		}
		st := TallStep{Op: "block", Seed: r.Next()}
		switch r.Intn(6) {
		case 0:
			st.Adds = blockSize
		case 1:
			st.Adds = blockSize + 1
		case 2:
			st.Adds = 0
		case 3:
			st.Adds = 1
		default:
			st.Adds = r.Intn(2*blockSize + 3)
		}
		nd := 0
		switch r.Intn(5) {
		case 0:
		case 1:
			nd = 64 // everything
		default:
			nd = r.Intn(6)
		}
		for j := 0; j < nd; j++ {
			st.Dels = append(st.Dels, r.Intn(1<<16))
		}
		switch r.Intn(4) {
		case 0:
			for j := 0; j < st.Adds; j++ {
				st.Rem = append(st.Rem, j)
			}
		case 1:
			if st.Adds > 0 {
				st.Rem = []int{st.Adds - 1}
			}
		case 2:
		default:
			for j := 0; j < st.Adds; j++ {
				if r.Pct(40) {
					st.Rem = append(st.Rem, j)
				}
			}
		}
		c.Steps = append(c.Steps, st)
	}
	return c
}

func (e *tallEngine) Run(seed uint64, f *Findings) *CaseResult {
	return e.runCase(e.genCase(seed), f, false)
}

type tallFrame struct {
	pre, post *State
	dels      []H
	adds      []H
	proof     u.Proof
	ud        u.UpdateData
	stump     u.Stump
	held      map[H]bool
	fheld     map[H]bool
	prevRoots []H
}

func copyHeld(m map[H]bool) map[H]bool {
	o := make(map[H]bool, len(m))
	for k := range m {
		o[k] = true
	}
	return o
}

func sortedHeld(m map[H]bool) []H {
	out := make([]H, 0, len(m))
	for k := range m {
		out = append(out, k)
	}
	sortH(out)
	return out
}

func modelStump(st *State) u.Stump {
	L := st.Layout()
	return u.Stump{NumLeaves: st.N, Roots: append([]H(nil), L.Roots...)}
}

func tallLeaf(seed uint64, k int) H {
	var h H
	x := mix64(seed ^ uint64(k+1)*0xa24baed4963ee407)
	for i := range h {
		if i%8 == 0 {
			x = mix64(x)
		}
		h[i] = byte(x >> (uint(i%8) * 8))
	}
	h[0] |= 1
	return h
}

// lightCheck: held set exact, true positions, canonical proof, accepted.
func tallLightCheck(ch []H, cp u.Proof, held map[H]bool, st *State) (string, string) {
	L := st.Layout()
	if len(ch) != len(cp.Targets) {
		return "len-skew", fmt.Sprintf("%d cached hashes but %d targets", len(ch), len(cp.Targets))
	}
	got := map[H]bool{}
	for _, h := range ch {
		if got[h] {
			return "held-dup", "a leaf is held twice"
		}
		got[h] = true
	}
	if len(got) != len(held) {
		return "held-set", fmt.Sprintf("holds %d leaves, expected %d", len(got), len(held))
	}
	for h := range held {
		if !got[h] {
			return "held-set", fmt.Sprintf("leaf %x.. is missing", h[:4])
		}
	}
	for i, h := range ch {
		ro, ok := L.LeafAt[h]
		if !ok {
			return "held-dead", fmt.Sprintf("holds %x.. which is not live", h[:4])
		}
		if ro.Pos(L.R) != cp.Targets[i] {
			return "wrong-pos", fmt.Sprintf("leaf %x.. paired with position %d, model says %d (row %d)", h[:4], cp.Targets[i], ro.Pos(L.R), ro.R)
		}
	}
	want, _ := L.CanonProof(ch)
	if !eqHashes(want.Proof, cp.Proof) {
		return "noncanonical", fmt.Sprintf("proof has %d hashes, canonical proof has %d (or contents differ)", len(cp.Proof), len(want.Proof))
	}
	if len(ch) > 0 {
		if err, _ := guard(func() error { _, e := u.Verify(modelStump(st), ch, cp); return e }); err != nil {
			return "verify", fmt.Sprintf("cached proof rejected: %v", err)
		}
	}
	return "", ""
}

func udMismatch(ud u.UpdateData, e expUpdate) (string, string) {
	if ud.PrevNumLeaves != e.PrevNumLeaves {
		return "prevnumleaves", fmt.Sprintf("PrevNumLeaves %d, expected %d", ud.PrevNumLeaves, e.PrevNumLeaves)
	}
	if !eqU64(ud.ToDestroy, e.ToDestroy) {
		return "todestroy", fmt.Sprintf("ToDestroy %v, expected %v", ud.ToDestroy, e.ToDestroy)
	}
	if !eqU64(ud.NewDelPos, e.DelPos) {
		return "delpos", fmt.Sprintf("NewDelPos %v, expected %v", ud.NewDelPos, e.DelPos)
	}
	if !eqHashes(ud.NewDelHash, e.DelHash) {
		return "delhash", "NewDelHash differs from the model"
	}
	if !eqU64(ud.NewAddPos, e.AddPos) {
		return "addpos", fmt.Sprintf("NewAddPos %v, expected %v", ud.NewAddPos, e.AddPos)
	}
	if !eqHashes(ud.NewAddHash, e.AddHash) {
		return "addhash", "NewAddHash differs from the model"
	}
	return "", ""
}

func (e expUpdate) toUD() u.UpdateData {
	return u.UpdateData{ToDestroy: e.ToDestroy, PrevNumLeaves: e.PrevNumLeaves, NewDelHash: e.DelHash, NewDelPos: e.DelPos, NewAddHash: e.AddHash, NewAddPos: e.AddPos}
}

func (e *tallEngine) runCase(c *TallCase, f *Findings, trace bool) *CaseResult {
	cr := &CaseResult{Stats: NewStats(), Case: c}
	stats := cr.Stats
	var log []string
	digest := mix64(c.Base ^ c.Empty)
	logf := func(format string, a ...interface{}) {
		s := fmt.Sprintf(format, a...)
		for i := 0; i < len(s); i++ {
			digest = mix64(digest ^ uint64(s[i]))
		}
		if trace {
			log = append(log, s)
		}
	}
	step := 0
	violate := func(prop, class, detail string) {
		v := Violation{Property: prop, Class: "tall-" + class, Node: "tall", Step: step, Detail: detail}
		logf("violation %s %s: %s", prop, v.Class, detail)
		if f != nil && f.Matches(v) {
			stats.Known[prop+":"+v.Class]++
			return
		}
		if prop != e.prop {
			stats.Foreign[prop+":"+v.Class]++
			return
		}
		if len(cr.Violations) == 0 {
			cr.Violations = append(cr.Violations, v)
		}
	}
	defer func() {
		if r := recover(); r != nil {
			cr.Panic = fmt.Sprintf("tall engine: %v", r)
		}
		cr.Digest = digest
		if trace {
			cr.Case = c
			tallTrace = log
		}
	}()

	st := NewSparseState(c.Base, tallOpaqueHashes(c.Base, c.Empty, c.Seed))
	stump := modelStump(st)
	var ch []H
	var cp u.Proof
	held := map[H]bool{}
	var mp *u.MapPollard
	fheld := map[H]bool{}
	if c.Forest {
		m := u.NewMapPollardFromRoots(append([]H(nil), stump.Roots...), st.N, false)
		mp = &m
	}
	var stack []*tallFrame
	carried := false
	leafNo := 0

	forestCheck := func(where string, cur *State, ownerRoots string) {
		if mp == nil {
			return
		}
		L := cur.Layout()
		stats.OracleChecks["tall_forest_roots"]++
		if mp.GetNumLeaves() != cur.N {
			violate(ownerRoots, "forest-numleaves", fmt.Sprintf("%s: map forest has %d leaves, model %d", where, mp.GetNumLeaves(), cur.N))
			mp = nil
			return
		}
		if !eqHashes(mp.GetRoots(), L.Roots) {
			violate(ownerRoots, "forest-roots", fmt.Sprintf("%s: map forest roots differ from the model (N=%d)", where, cur.N))
			mp = nil
			return
		}
		// stored content (C09): the cache is exactly the remembered live leaves at
		// their true positions; every stored position is a root, a remembered leaf,
		// an ancestor of one or the sibling of one of those, and holds the true hash
		stats.OracleChecks["tall_forest_content"]++
		T := mp.TotalRows
		var cls, det string
		nCached := 0
		// (entries are collected and sorted first: the verdict must not depend on
		// the iteration order of the library's maps)
		type centry struct {
			h   H
			pos uint64
		}
		var ces []centry
		guard(func() error {
			return mp.CachedLeaves.ForEach(func(h u.Hash, pos uint64) error {
				ces = append(ces, centry{h, pos})
				return nil
			})
		})
		sort.Slice(ces, func(i, j int) bool { return lessH(ces[i].h, ces[j].h) })
		for _, ce := range ces {
			nCached++
			h, pos := ce.h, ce.pos
			ro, ok := L.LeafAt[h]
			switch {
			case cls != "":
			case !ok || !fheld[h]:
				cls, det = "forest-cached-unexpected", fmt.Sprintf("cache holds %x.. (pos %d) which is not a remembered live leaf", h[:4], pos)
			case ro.Pos(T) != pos:
				cls, det = "forest-cached-wrong-pos", fmt.Sprintf("cached leaf %x.. at %d, true position %d", h[:4], pos, ro.Pos(T))
			}
		}
		if cls == "" && nCached != len(fheld) {
			cls, det = "forest-cached-count", fmt.Sprintf("cache holds %d leaves, %d are remembered", nCached, len(fheld))
		}
		if cls == "" {
			allowed := map[uint64]bool{}
			for _, r := range L.RootsAt {
				allowed[r.Pos(T)] = true
			}
			for h := range fheld {
				p := L.LeafAt[h]
				for {
					allowed[p.Pos(T)] = true
					if L.IsRoot(p) {
						break
					}
					allowed[p.Sib().Pos(T)] = true
					p = p.Parent()
				}
			}
			byPos := map[uint64]H{}
			for ro, h := range L.Nodes {
				byPos[ro.Pos(T)] = h
			}
			type nentry struct {
				pos uint64
				h   H
			}
			var nes []nentry
			guard(func() error {
				return mp.Nodes.ForEach(func(pos uint64, l u.Leaf) error {
					nes = append(nes, nentry{pos, l.Hash})
					return nil
				})
			})
			sort.Slice(nes, func(i, j int) bool { return nes[i].pos < nes[j].pos })
			for _, ne := range nes {
				want := byPos[ne.pos]
				switch {
				case cls != "":
				case !allowed[ne.pos]:
					cls, det = "forest-stored-unneeded", fmt.Sprintf("stores position %d which no remembered leaf needs", ne.pos)
				case ne.h != want:
					cls, det = "forest-stored-wrong-hash", fmt.Sprintf("position %d holds %x.., the node there has %x..", ne.pos, ne.h[:4], want[:4])
				}
			}
		}
		if cls != "" {
			violate("C09", cls, fmt.Sprintf("%s (N=%d): %s", where, cur.N, det))
			mp = nil
			return
		}
		hs := sortedHeld(fheld)
		if len(hs) == 0 {
			return
		}
		stats.OracleChecks["tall_forest_prove"]++
		var pr u.Proof
		err, _ := guard(func() error { var e error; pr, e = mp.Prove(hs); return e })
		if err != nil {
			violate("C09", "forest-prove-err", fmt.Sprintf("%s: Prove of the %d remembered leaves failed: %v", where, len(hs), err))
			mp = nil
			return
		}
		want, _ := L.CanonProof(hs)
		if !eqU64(pr.Targets, want.Targets) || !eqHashes(pr.Proof, want.Proof) {
			violate("C09", "forest-prove-diff", fmt.Sprintf("%s: proof of the remembered leaves differs from the canonical one (targets %v, model %v)", where, pr.Targets, want.Targets))
			mp = nil
		}
	}

	for si, s := range c.Steps {
		step = si
		stats.Events++
		switch s.Op {
		case "undo":
			if len(stack) == 0 {
				continue
			}
			fr := stack[len(stack)-1]
			stack = stack[:len(stack)-1]
			stats.Undos++
			logf("undo N %d->%d", fr.post.N, fr.pre.N)
			// light client
			for _, a := range fr.adds {
				delete(held, a)
			}
			var out []H
			cpw := u.Proof{Targets: append([]uint64(nil), cp.Targets...), Proof: append([]H(nil), cp.Proof...)}
			err, _ := guard(func() error {
				var e2 error
				out, e2 = cpw.Undo(uint64(len(fr.adds)), fr.post.N, fr.proof.Targets, fr.dels, append([]H(nil), ch...), fr.ud.ToDestroy, fr.proof)
				return e2
			})
			stats.OracleChecks["tall_light_undo"]++
			bad := false
			if err != nil {
				violate("C08", "undo-err", fmt.Sprintf("Proof.Undo failed (N %d->%d): %v", fr.post.N, fr.pre.N, err))
				bad = true
			} else if cls, det := tallLightCheck(out, cpw, held, fr.pre); cls != "" {
				violate("C08", "undo-"+cls, fmt.Sprintf("after Proof.Undo (N %d->%d, ToDestroy %v): %s", fr.post.N, fr.pre.N, fr.ud.ToDestroy, det))
				bad = true
			}
			if bad {
				ch = sortedHeld(held)
				cp, _ = fr.pre.Layout().CanonProof(ch)
			} else {
				ch, cp = out, cpw
			}
			stump = fr.stump
			// map forest
			if mp != nil {
				err, _ := guard(func() error { return mp.Undo(uint64(len(fr.adds)), fr.proof, fr.dels, fr.prevRoots) })
				if err != nil {
					violate("C06", "forest-undo-err", fmt.Sprintf("MapPollard.Undo failed (N %d->%d): %v", fr.post.N, fr.pre.N, err))
					mp = nil
				} else {
					// (current - the block's additions) + the block's deletions, DESIGN 4.9
					for _, a := range fr.adds {
						delete(fheld, a)
					}
					for _, d := range fr.dels {
						fheld[d] = true // they were cached in order to be deleted
					}
					forestCheck("after Undo", fr.pre, "C06")
				}
			}
			st = fr.pre
			logf("light %d held", len(ch))
		case "block":
			live := st.Live()
			var dels []H
			seen := map[int]bool{}
			for _, p := range s.Dels {
				if len(live) == 0 {
					break
				}
				i := p % len(live)
				if !seen[i] {
					seen[i] = true
					dels = append(dels, live[i])
				}
			}
			adds := make([]H, s.Adds)
			for i := range adds {
				adds[i] = tallLeaf(c.Seed^s.Seed, leafNo+i)
			}
			leafNo += s.Adds
			pre := st
			mid := pre.WithDels(dels)
			post := mid.WithAdds(adds)
			proof, _ := pre.Layout().CanonProof(dels)
			if proof.Targets == nil {
				proof.Targets = []uint64{}
			}
			fr := &tallFrame{pre: pre, post: post, dels: dels, adds: adds, proof: proof,
				stump: u.Stump{NumLeaves: stump.NumLeaves, Roots: append([]H(nil), stump.Roots...)}, held: copyHeld(held), fheld: copyHeld(fheld), prevRoots: append([]H(nil), pre.Layout().Roots...)}
			stats.Blocks++
			stats.Applies++
			if !carried && post.N-c.Base >= uint64(1)<<uint(bits.TrailingZeros64(c.Base)) {
				stats.Reach["tall_carry_through_run"]++
				carried = true
			}
			logf("block dels=%d adds=%d N %d->%d", len(dels), len(adds), pre.N, post.N)
			// roots-only verifier
			var ud u.UpdateData
			err, _ := guard(func() error {
				var e2 error
				ud, e2 = stump.Update(append([]H(nil), dels...), append([]H(nil), adds...), u.Proof{Targets: append([]uint64(nil), proof.Targets...), Proof: append([]H(nil), proof.Proof...)})
				return e2
			})
			exp := ExpectedUpdate(pre, mid, post, dels, adds)
			postL := post.Layout()
			stats.OracleChecks["tall_roots"]++
			stats.StateKeys[post.Key()] = struct{}{}
			stats.ShapeKeys[post.ShapeKey()] = struct{}{}
			if err != nil {
				violate("C01", "apply-err", fmt.Sprintf("Stump.Update refused an honest block (N %d->%d): %v", pre.N, post.N, err))
				stump = modelStump(post)
				ud = exp.toUD()
			} else {
				if stump.NumLeaves != post.N {
					violate("C01", "numleaves", fmt.Sprintf("stump has %d leaves, model %d", stump.NumLeaves, post.N))
					stump = modelStump(post)
				} else if !eqHashes(stump.Roots, postL.Roots) {
					violate("C01", "roots", fmt.Sprintf("stump roots differ from the model after N %d->%d", pre.N, post.N))
					stump = modelStump(post)
				}
				stats.OracleChecks["tall_updatedata"]++
				if cls, det := udMismatch(ud, exp); cls != "" {
					violate("C11", "ud-"+cls, fmt.Sprintf("block N %d->%d: %s", pre.N, post.N, det))
					ud = exp.toUD() // the light client is judged on true update data
				}
			}
			if len(exp.ToDestroy) > 0 {
				stats.Reach["tall_empty_root_overwritten"]++
				for _, p := range exp.ToDestroy {
					if ro, ok := roOfPos(p, postL.R); ok && ro.R >= 31 {
						stats.Reach["tall_empty_root_row31plus_overwritten"]++
						break
					}
				}
			}
			fr.ud = ud
			// light client
			rem := make([]uint32, 0, len(s.Rem))
			for _, k := range s.Rem {
				if k >= 0 && k < len(adds) {
					rem = append(rem, uint32(k))
				}
			}
			sort.Slice(rem, func(i, j int) bool { return rem[i] < rem[j] })
			for _, d := range dels {
				delete(held, d)
			}
			for _, k := range rem {
				held[adds[k]] = true
			}
			var out []H
			cpw := u.Proof{Targets: append([]uint64(nil), cp.Targets...), Proof: append([]H(nil), cp.Proof...)}
			err, _ = guard(func() error {
				var e2 error
				out, e2 = cpw.Update(append([]H(nil), ch...), adds, proof.Targets, rem, ud)
				return e2
			})
			stats.OracleChecks["tall_light_update"]++
			bad := false
			if err != nil {
				violate("C07", "update-err", fmt.Sprintf("Proof.Update failed (N %d->%d): %v", pre.N, post.N, err))
				bad = true
			} else if cls, det := tallLightCheck(out, cpw, held, post); cls != "" {
				violate("C07", cls, fmt.Sprintf("after Proof.Update (N %d->%d, ToDestroy %v): %s", pre.N, post.N, ud.ToDestroy, det))
				bad = true
			}
			if bad {
				ch = sortedHeld(held)
				cp, _ = postL.CanonProof(ch)
			} else {
				ch, cp = out, cpw
			}
			for _, h := range ch {
				if ro := postL.LeafAt[h]; ro.R >= 31 {
					stats.Reach["tall_held_leaf_at_row31plus"]++
					break
				}
			}
			// partial map forest
			if mp != nil {
				bad := false
				if len(dels) > 0 {
					err, _ := guard(func() error { return mp.Verify(dels, proof, true) })
					if err != nil {
						violate("C02", "forest-verify-honest", fmt.Sprintf("MapPollard.Verify(remember) refused an honest proof (N=%d): %v", pre.N, err))
						bad = true
					}
				}
				if !bad {
					leaves := make([]u.Leaf, len(adds))
					isRem := map[int]bool{}
					for _, k := range rem {
						isRem[int(k)] = true
					}
					for i, a := range adds {
						leaves[i] = u.Leaf{Hash: a, Remember: isRem[i]}
					}
					err, _ := guard(func() error { return mp.Modify(leaves, dels, proof) })
					if err != nil {
						violate("C01", "forest-apply-err", fmt.Sprintf("MapPollard.Modify refused an honest block (N %d->%d): %v", pre.N, post.N, err))
						bad = true
					}
				}
				if bad {
					mp = nil
				} else {
					for _, d := range dels {
						delete(fheld, d)
					}
					for _, k := range rem {
						fheld[adds[k]] = true
					}
					forestCheck("after Modify", post, "C01")
				}
			}
			stack = append(stack, fr)
			st = post
			logf("light %d held, stump %d roots", len(ch), len(stump.Roots))
		}
	}
	cr.NonTrivial = carried && stats.Applies >= 2
	if e.prop == "C08" || e.prop == "C06" {
		cr.NonTrivial = cr.NonTrivial && stats.Undos > 0
	}
	if (e.prop == "C06" || e.prop == "C09") && !c.Forest {
		cr.NonTrivial = false
	}
	return cr
}

var tallTrace []string

func (e *tallEngine) Minimize(ci interface{}, class string, f *Findings, budget time.Duration) interface{} {
	best := *ci.(*TallCase)
	deadline := time.Now().Add(budget)
	fails := func(c *TallCase) bool {
		if time.Now().After(deadline) {
			return false
		}
		r := e.runCase(c, f, false)
		for _, v := range r.Violations {
			if v.Class == class {
				return true
			}
		}
		return false
	}
	clone := func(c *TallCase) *TallCase {
		d := *c
		d.Steps = make([]TallStep, len(c.Steps))
		for i, s := range c.Steps {
			s.Dels = append([]int(nil), s.Dels...)
			s.Rem = append([]int(nil), s.Rem...)
			d.Steps[i] = s
		}
		return &d
	}
	for changed := true; changed; {
		changed = false
		if best.Forest {
			d := clone(&best)
			d.Forest = false
			if fails(d) {
				best, changed = *d, true
			}
		}
		for i := len(best.Steps) - 1; i >= 0; i-- {
			d := clone(&best)
			d.Steps = append(d.Steps[:i], d.Steps[i+1:]...)
			if fails(d) {
				best, changed = *d, true
			}
		}
		for i := range best.Steps {
			for len(best.Steps[i].Dels) > 0 {
				d := clone(&best)
				d.Steps[i].Dels = d.Steps[i].Dels[:len(d.Steps[i].Dels)-1]
				if !fails(d) {
					break
				}
				best, changed = *d, true
			}
			for len(best.Steps[i].Rem) > 0 {
				d := clone(&best)
				d.Steps[i].Rem = d.Steps[i].Rem[1:]
				if !fails(d) {
					break
				}
				best, changed = *d, true
			}
		}
	}
	return &best
}

func (e *tallEngine) Replay(raw json.RawMessage, f *Findings, trace bool) (*CaseResult, []string, error) {
	var c TallCase
	if err := json.Unmarshal(raw, &c); err != nil {
		return nil, nil, err
	}
	cr := e.runCase(&c, f, trace)
	return cr, tallTrace, nil
}
