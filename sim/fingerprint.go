package main

import (
	"crypto/sha256"
	"encoding/binary"
	"fmt"

	u "github.com/utreexo/utreexo"
)

// Fingerprints of caller-owned slices (C17): taken before each library call and
// re-checked after it; results returned by earlier calls are tracked and
// re-checked after later calls.  The fingerprint covers the whole backing
// array up to cap (sentinels live in the spare capacity), plus len and cap.

type fpSum [32]byte

func fpOf(x interface{}) fpSum {
	h := sha256.New()
	var b8 [8]byte
	put := func(v uint64) { binary.LittleEndian.PutUint64(b8[:], v); h.Write(b8[:]) }
	switch s := x.(type) {
	case []H:
		put(uint64(len(s)))
		put(uint64(cap(s)))
		for _, e := range s[:cap(s)] {
			h.Write(e[:])
		}
	case []uint64:
		put(uint64(len(s)))
		put(uint64(cap(s)))
		for _, e := range s[:cap(s)] {
			put(e)
		}
	case []u.Leaf:
		put(uint64(len(s)))
		put(uint64(cap(s)))
		for _, e := range s[:cap(s)] {
			h.Write(e.Hash[:])
			if e.Remember {
				h.Write([]byte{1})
			} else {
				h.Write([]byte{0})
			}
		}
	case []uint32:
		put(uint64(len(s)))
		put(uint64(cap(s)))
		for _, e := range s[:cap(s)] {
			put(uint64(e))
		}
	default:
		panic(fmt.Sprintf("fpOf: unsupported type %T", x))
	}
	var out fpSum
	copy(out[:], h.Sum(nil))
	return out
}

type tracked struct {
	what string
	val  interface{}
	sum  fpSum
}

type fpRegistry struct {
	w       *World
	on      bool
	results []tracked
	calls   int
	checked int
}

func newFpRegistry(w *World) *fpRegistry {
	return &fpRegistry{w: w, on: w.opt.Oracles == nil || w.opt.Oracles["aliasing"]}
}

type fpGuard struct {
	r    *fpRegistry
	call string
	args []interface{}
	sums []fpSum
}

func (r *fpRegistry) begin(call string, args ...interface{}) *fpGuard {
	if !r.on {
		return nil
	}
	g := &fpGuard{r: r, call: call, args: args}
	for _, a := range args {
		g.sums = append(g.sums, fpOf(a))
	}
	return g
}

func (g *fpGuard) end() {
	if g == nil {
		return
	}
	r := g.r
	r.calls++
	r.w.count("aliasing_args")
	for i, a := range g.args {
		if fpOf(a) != g.sums[i] {
			r.w.violate(nil, "C17", "arg-mutated:"+g.call, fmt.Sprintf("%s modified caller-owned argument #%d (%T)", g.call, i, a))
		}
	}
	r.recheckAll("after " + g.call)
}

// track registers results returned by the library; they must never change later.
func (r *fpRegistry) track(what string, vals ...interface{}) {
	if !r.on {
		return
	}
	for _, v := range vals {
		r.results = append(r.results, tracked{what, v, fpOf(v)})
	}
	if len(r.results) > 120 {
		r.results = r.results[len(r.results)-80:]
	}
}

func (r *fpRegistry) recheckAll(when string) {
	if !r.on {
		return
	}
	for i := range r.results {
		t := &r.results[i]
		r.checked++
		if fpOf(t.val) != t.sum {
			r.w.violate(nil, "C17", "result-changed:"+t.what, fmt.Sprintf("a %s returned earlier changed %s", t.what, when))
			t.sum = fpOf(t.val)
		}
	}
}
