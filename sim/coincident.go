package main

import (
	"fmt"
	"sort"

	u "github.com/utreexo/utreexo"
)

// States in which a live leaf carries the bytes of another node's hash.
//
// Leaf hashes are caller-supplied values and the hashes of internal nodes are
// public, so such a leaf can be added on purpose.  No forest instance of a run
// is put into such a state (DESIGN 7.1: the forests key maps by hash), but
// everything that works on roots and proofs alone - the stand-alone proof
// helpers of C14, stand-alone Verify and the roots-only verifier - is a pure
// function of its arguments and can be asked about it directly: the state is
// derived from the node's current model state, and positions, canonical proofs
// and roots come from the model, which works by slot and place and never by hash.

// coincident: a copy of st in which one live leaf has the hash of an internal
// node whose subtree does not contain that leaf (so the node's hash stays what
// it was); nil if the state has no such pair.  preferRoot: the node is a tree
// root when possible (two trees with the same root hash, or a root hash inside
// another tree).
func coincident(st *State, r *Rng, preferRoot bool) *State {
	c, _, _ := coincidentAt(st, r, preferRoot)
	return c
}

// coincidentAt also names the node (place in st's layout) and the leaf's slot.
func coincidentAt(st *State, r *Rng, preferRoot bool) (*State, RO, int) {
	L := st.Layout()
	for _, h := range L.InternalHashes() {
		if st.IsLive(h) {
			return nil, RO{}, 0 // the state already has such a leaf (run switch node_hash_leaf)
		}
	}
	var inner, innerRoots []RO
	for ro := range L.Nodes {
		if !L.IsLeaf[ro] {
			inner = append(inner, ro)
			if L.IsRoot(ro) {
				innerRoots = append(innerRoots, ro)
			}
		}
	}
	if len(inner) == 0 {
		return nil, RO{}, 0
	}
	sortRO(inner)
	sortRO(innerRoots)
	var liveSlots []int
	for i := range st.Leaves {
		if st.Alive[i] {
			liveSlots = append(liveSlots, i)
		}
	}
	for try := 0; try < 8; try++ {
		x := inner[r.Intn(len(inner))]
		k := liveSlots[r.Intn(len(liveSlots))]
		if preferRoot && len(innerRoots) > 0 && try < 6 {
			x = innerRoots[r.Intn(len(innerRoots))]
			if try < 3 {
				// ... and the leaf is the last live one: often a tree of its own
				k = liveSlots[len(liveSlots)-1]
			}
		}
		lg := L.Log[x]
		if uint64(k) >= lg.lo && uint64(k) < lg.lo+(uint64(1)<<lg.h) {
			continue
		}
		if !preferRoot && try < 4 && L.RootOf(x) != L.RootOf(L.LeafAt[st.Leaves[k]]) {
			continue // prefer a node of the same tree: it can be a proof hash for that leaf
		}
		c := st.clone()
		c.Leaves[k] = L.Nodes[x]
		if h2, ok := c.Layout().Nodes[x]; !ok || h2 != L.Nodes[x] {
			return nil, RO{}, 0
		}
		return c, x, k
	}
	return nil, RO{}, 0
}

// stumpCoincident: stand-alone Verify and Stump.Update on a block of a
// coincident state (asked at a seeded share of the observations of a
// roots-only node; the node's own state is not touched).
func (w *World) stumpCoincident(n *Node, st *State, seed uint64) {
	r := SubRng(seed, "stump-coincident")
	if !r.Pct(10) || st.NumLive() < 2 {
		return
	}
	st2 := coincident(st, r, r.Pct(60))
	if st2 == nil {
		return
	}
	w.stats.Reach["stump_leaf_equals_node_hash"]++
	L := st2.Layout()
	live := st2.Live()
	var twin H
	for i := range st2.Leaves {
		if st2.Alive[i] && st2.Leaves[i] != st.Leaves[i] {
			twin = st2.Leaves[i]
		}
	}
	// the block: 1..4 deletions (mostly including the special leaf), 0..3 additions
	picks := make([]int, 1+r.Intn(4))
	for i := range picks {
		picks[i] = r.Intn(1 << 20)
	}
	dels := w.pickHashes(live, picks)
	if r.Pct(70) {
		has := false
		for _, d := range dels {
			has = has || d == twin
		}
		if !has {
			dels[0] = twin
		}
	}
	adds := make([]H, r.Intn(4))
	for i := range adds {
		x := mix64(seed ^ uint64(i+1)*0xc01c1de)
		for k := range adds[i] {
			if k%8 == 0 {
				x = mix64(x)
			}
			adds[i][k] = byte(x >> (uint(k%8) * 8))
		}
		adds[i][0], adds[i][31] = 0xc0, adds[i][31]|1
	}
	proof, ok := L.CanonProof(dels)
	if !ok {
		return
	}
	own := "C01"
	if w.opt.Property == "C05" {
		// an accepted non-canonical encoding: targets in another order, unused trailing hash
		own = "C05"
		r.Shuffle(len(dels), func(i, j int) {
			dels[i], dels[j] = dels[j], dels[i]
			proof.Targets[i], proof.Targets[j] = proof.Targets[j], proof.Targets[i]
		})
		if r.Bool() {
			proof.Proof = append(append([]H(nil), proof.Proof...), H{0x7a, 0x11})
		}
	}
	dels, proof.Targets, proof.Proof = padH(dels), padU(proof.Targets), padH(proof.Proof)
	s := u.Stump{Roots: append([]H(nil), L.Roots...), NumLeaves: st2.N}
	where := fmt.Sprintf("[state of block %d with leaf %s carrying a node's hash; N=%d, targets %v, %d additions]", n.at, short(twin), st2.N, proof.Targets, len(adds))
	var idx []int
	err, _ := guard(func() error { var e error; idx, e = u.Verify(s, dels, proof); return e })
	if err != nil {
		w.violate(n, own, "coincident-verify", where+" stand-alone Verify rejected a valid proof: "+err.Error())
		return
	}
	if w.on("prove") {
		if want := L.TreesWith(dels); !sameIntSet(idx, want) {
			w.violate(n, "C02", "coincident-root-indexes", fmt.Sprintf("%s Verify reported trees %v, targets lie in %v", where, idx, want))
			return
		}
	}
	var ud u.UpdateData
	err, _ = guard(func() error { var e error; ud, e = s.Update(dels, adds, proof); return e })
	if err != nil {
		w.violate(n, own, "coincident-apply-err", where+" Stump.Update failed: "+err.Error())
		return
	}
	mid := st2.WithDels(dels)
	post := mid.WithAdds(adds)
	if s.NumLeaves != post.N || !eqHashes(s.Roots, post.Layout().Roots) {
		w.violate(n, own, "coincident-roots", fmt.Sprintf("%s after Stump.Update: %d leaves, roots differ from the model at index %d (model %d leaves)", where, s.NumLeaves, firstDiff(s.Roots, post.Layout().Roots), post.N))
		return
	}
	if w.on("updatedata") {
		// the update data of that block (C11).  When two of the nodes it must list
		// carry the same hash the class says so: known finding KF3.
		b := &Block{ID: n.at, Dels: dels, Adds: adds, Pre: st2, Mid: mid, Post: post}
		w.classPrefix, w.classSuffix = "coincident-", ""
		if hasDupHash(ExpectedUpdate(st2, mid, post, dels, adds).AddHash) {
			w.classSuffix = "/equal-hashes"
			w.stats.Reach["updatedata_two_listed_nodes_same_hash"]++
		}
		w.checkUpdateData(n, b, ud)
		w.classPrefix, w.classSuffix = "", ""
	}
}

func hasDupHash(hs []H) bool {
	seen := map[H]bool{}
	for _, h := range hs {
		if h != zeroH && seen[h] {
			return true
		}
		seen[h] = true
	}
	return false
}

// sameUpdate: the update data is what the model expects (positions and hashes).
func sameUpdate(ud u.UpdateData, e expUpdate) bool {
	return ud.PrevNumLeaves == e.PrevNumLeaves &&
		(eqU64(ud.ToDestroy, e.ToDestroy) || len(ud.ToDestroy) == 0 && len(e.ToDestroy) == 0) &&
		eqU64(ud.NewDelPos, e.DelPos) && eqHashes(ud.NewDelHash, e.DelHash) &&
		eqU64(ud.NewAddPos, e.AddPos) && eqHashes(ud.NewAddHash, e.AddHash)
}

// partialCoincident: MapPollard.GetMissingPositions + VerifyPartialProof on a
// fresh partial forest that is created from the roots of a coincident state and
// remembers a few of its leaves through Verify (only position-keyed storage is
// involved: nothing is ever deleted from or added to this instance).
func (w *World) partialCoincident(n *Node, st *State, r *Rng) {
	if st.NumLive() < 3 {
		return
	}
	st2, x, slot := coincidentAt(st, r, false)
	if st2 == nil {
		return
	}
	L := st2.Layout()
	live := st2.Live()
	twin := st2.Leaves[slot]
	pick := func(force bool) []H {
		picks := make([]int, 1+r.Intn(4))
		for i := range picks {
			picks[i] = r.Intn(1 << 20)
		}
		hs := w.pickHashes(live, picks)
		if force {
			has := false
			for _, h := range hs {
				has = has || h == twin
			}
			if !has {
				hs[0] = twin
			}
		}
		return hs
	}
	held := pick(r.Pct(70))
	if r.Pct(40) {
		held = []H{twin}
	}
	m := u.NewMapPollardFromRoots(append([]H(nil), L.Roots...), st2.N, false)
	tmp := *n
	tmp.mp = &mapView{m: &m, node: &tmp}
	tmp.cfg.Big = 0
	ph, _ := L.CanonProof(held)
	if err, _ := guard(func() error { return m.Verify(held, ph, true) }); err != nil {
		w.violate(n, "C14", "coincident-remember", fmt.Sprintf("a partial forest created from the roots rejected (or panicked on) a valid proof of %v (N=%d, one leaf carries a node's hash): %v", ph.Targets, st2.N, err))
		return
	}
	w.stats.Reach["c14_partial_leaf_equals_node_hash"]++
	want := pick(false)
	under := func(p RO) (H, bool) {
		// a live leaf of the subtree standing at place p
		lg, ok := L.Log[p]
		if !ok {
			return H{}, false
		}
		var c []H
		for sl := lg.lo; sl < lg.lo+(uint64(1)<<lg.h) && sl < uint64(len(st2.Leaves)); sl++ {
			if st2.Alive[sl] {
				c = append(c, st2.Leaves[sl])
			}
		}
		if len(c) == 0 {
			return H{}, false
		}
		return c[r.Intn(len(c))], true
	}
	if r.Pct(60) {
		// wanted: a leaf next to the node whose hash the special leaf carries and a
		// leaf next to the special leaf, so that both that node and the special leaf
		// are proof positions of the request
		want = want[:0]
		if h, ok := under(x.Sib()); ok && !L.IsRoot(x) {
			want = append(want, h)
		}
		if tp := L.LeafAt[twin]; !L.IsRoot(tp) {
			if h, ok := under(tp.Sib()); ok {
				want = append(want, h)
			}
		}
		want = dedupH(want)
		if len(want) == 0 {
			want = pick(false)
		}
		r.Shuffle(len(want), func(i, j int) { want[i], want[j] = want[j], want[i] })
	}
	pw, _ := L.CanonProof(want)
	w.partialFetchVerify(&tmp, st2, padH(want), padU(pw.Targets), false)
}

// lightCoincident: the cached proof of a light client that tracks a few leaves
// of a coincident state is taken through one block and back (Proof.Update with
// the update data the real Stump.Update hands out, then Proof.Undo) and judged
// by the same oracle as the light nodes of the run.  Nothing of node n changes.
func (w *World) lightCoincident(n *Node, st *State, seed uint64) {
	r := SubRng(seed, "light-coincident")
	if !r.Pct(10) || st.NumLive() < 2 {
		return
	}
	st2, _, slot := coincidentAt(st, r, r.Pct(40))
	if st2 == nil {
		return
	}
	w.stats.Reach["light_leaf_equals_node_hash"]++
	L := st2.Layout()
	live := st2.Live()
	twin := st2.Leaves[slot]
	pick := func(k int, force bool) []H {
		picks := make([]int, k)
		for i := range picks {
			picks[i] = r.Intn(1 << 20)
		}
		hs := w.pickHashes(live, picks)
		if force && len(hs) > 0 {
			has := false
			for _, h := range hs {
				has = has || h == twin
			}
			if !has {
				hs[0] = twin
			}
		}
		return hs
	}
	held := pick(1+r.Intn(4), r.Pct(70))
	sort.Slice(held, func(i, j int) bool { return L.LeafAt[held[i]].Pos(L.R) < L.LeafAt[held[j]].Pos(L.R) })
	dels := pick(r.Intn(4), r.Pct(30))
	adds := make([]H, r.Intn(4))
	var rem []uint32
	for i := range adds {
		x := mix64(seed ^ uint64(i+1)*0x11c01c1de)
		for k := range adds[i] {
			if k%8 == 0 {
				x = mix64(x)
			}
			adds[i][k] = byte(x >> (uint(k%8) * 8))
		}
		adds[i][0], adds[i][31] = 0xc1, adds[i][31]|1
		if r.Pct(50) {
			rem = append(rem, uint32(i))
		}
	}
	if len(dels) == 0 && len(adds) == 0 {
		return
	}
	bp, _ := L.CanonProof(dels)
	cp, _ := L.CanonProof(held)
	tmp := *n
	tmp.cfg.Big = 0
	tmp.ch, tmp.cp = padH(held), u.Proof{Targets: padU(cp.Targets), Proof: padH(cp.Proof)}
	tmp.held = map[H]bool{}
	for _, h := range held {
		tmp.held[h] = true
	}
	where := fmt.Sprintf("[state of block %d with leaf %s carrying a node's hash; N=%d, tracked %v, block deletes %v and adds %d]", n.at, short(twin), st2.N, cp.Targets, bp.Targets, len(adds))
	s := u.Stump{Roots: append([]H(nil), L.Roots...), NumLeaves: st2.N}
	var ud u.UpdateData
	if err, _ := guard(func() error { var e error; ud, e = s.Update(dels, adds, bp); return e }); err != nil {
		return // stumpCoincident reports this
	}
	mid := st2.WithDels(dels)
	post := mid.WithAdds(adds)
	if !sameUpdate(ud, ExpectedUpdate(st2, mid, post, dels, adds)) {
		// the update data itself is wrong (C11 reports that: stumpCoincident)
		w.stats.Reach["light_coincident_skipped_wrong_updatedata"]++
		return
	}
	var out []H
	err, _ := guard(func() error {
		var e error
		out, e = tmp.cp.Update(tmp.ch, adds, bp.Targets, rem, ud)
		return e
	})
	if err != nil {
		w.violate(n, "C07", "coincident-update-err", where+" Proof.Update failed: "+err.Error())
		return
	}
	tmp.ch = out
	for _, d := range dels {
		delete(tmp.held, d)
	}
	for _, k := range rem {
		tmp.held[adds[k]] = true
	}
	if cls, det := w.lightMismatch(&tmp, post); cls != "" {
		if cls == "held-set" && w.heldMissingOnlyLoneRoots(&tmp, post) {
			cls = "held-set-lone-root-leaf-missing"
		}
		w.violate(n, "C07", "coincident-"+cls, where+" after Proof.Update: "+det)
		return
	}
	// and back
	err, _ = guard(func() error {
		var e error
		out, e = tmp.cp.Undo(uint64(len(adds)), post.N, bp.Targets, dels, tmp.ch, ud.ToDestroy, bp)
		return e
	})
	if err != nil {
		w.violate(n, "C08", "coincident-undo-err", where+" Proof.Undo failed: "+err.Error())
		return
	}
	tmp.ch = out
	tmp.held = map[H]bool{}
	for _, h := range held {
		tmp.held[h] = true
	}
	for _, d := range dels {
		delete(tmp.held, d) // documented: leaves the block deleted are not restored
	}
	if cls, det := w.lightMismatch(&tmp, st2); cls != "" {
		w.violate(n, "C08", "coincident-"+cls, where+" after Proof.Undo: "+det)
	}
}
