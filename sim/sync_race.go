//go:build race

package main

import (
	"runtime"
	"time"
)

// Hand-off between the scheduler and its tasks under the Go race detector.
//
// Channels and sync/atomic are synchronisation operations for the detector:
// used for the hand-off they would order every access of one task before
// every later access of the next, and no data race inside the library could
// ever be reported.  Here the hand-off is made of plain loads and stores in
// functions the detector does not instrument (go:norace), so the ONLY
// happens-before edges between tasks are the ones the library's own lock
// creates.  A conflicting access the lock does not order is then a reported
// data race of this very, replayable, execution.  (Plain flags are enough on
// the supported platform, amd64/TSO; the loops contain calls, so the compiler
// reloads the flag.)

const raceEnabled = true

type parker struct{ flag int32 }

func newParker() *parker { return &parker{} }

//go:norace
//go:noinline
func (p *parker) take() bool {
	if p.flag != 0 {
		p.flag = 0
		return true
	}
	return false
}

func (p *parker) wait() {
	for i := 0; !p.take(); i++ {
		if i < 3000 {
			runtime.Gosched()
		} else {
			time.Sleep(20 * time.Microsecond)
		}
	}
}

//go:norace
//go:noinline
func (p *parker) release() { p.flag = 1 }

//go:norace
//go:noinline
func loadStatus(t *schedTask) int32 { return t.status }

//go:norace
//go:noinline
func storeStatus(t *schedTask, v int32) { t.status = v }
