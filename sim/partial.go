package main

import (
	"fmt"

	u "github.com/utreexo/utreexo"
)

// C09: a partial map forest stores only true, needed hashes and can always
// prove its cache.  Inspection goes through the exported storage seams
// (Nodes.ForEach / CachedLeaves.ForEach).

func (w *World) checkPartialContent(n *Node, st *State, phase string) {
	w.count("partial")
	cls, det := w.partialMismatch(n, st)
	if cls == "" {
		return
	}
	prop := "C09"
	if n.hasRestore && !w.inTwin {
		n.twinCache = nil
		if !w.twinShows(n, "partial", "norestore") {
			prop = "C13"
		}
	}
	w.violate(n, prop, cls, fmt.Sprintf("[%s, block %d, N=%d, TotalRows=%d] %s", phase, n.at, st.N, n.mp.Rows(), det))
	n.tainted = true
}

// partialAllowed: positions (in the node's own numbering) a partial forest may
// store: roots, remembered leaves, and the positions on their proof paths
// (their ancestors and the siblings of those).
func (w *World) partialAllowed(n *Node, st *State) map[uint64]bool {
	L := st.Layout()
	T := n.mp.Rows()
	allowed := map[uint64]bool{}
	for _, r := range L.RootsAt {
		allowed[r.Pos(T)] = true
	}
	for h := range n.remembered {
		ro, ok := L.LeafAt[h]
		if !ok {
			continue
		}
		p := ro
		for {
			allowed[p.Pos(T)] = true
			if L.IsRoot(p) {
				break
			}
			allowed[p.Sib().Pos(T)] = true
			p = p.Parent()
		}
	}
	return allowed
}

func (w *World) partialMismatch(n *Node, st *State) (string, string) {
	mp := n.mp
	L := st.Layout()
	T := mp.Rows()
	if rowsFor(st.N) > T {
		return "totalrows-too-small", fmt.Sprintf("TotalRows %d cannot hold %d leaves", T, st.N)
	}
	// every cached entry is a live leaf at its true position
	var cls, det string
	var cachedList []H
	err, _ := guard(func() error {
		return mp.CachedForEach(func(h H, pos uint64) error {
			ro, ok := L.LeafAt[h]
			if !ok {
				if cls == "" {
					cls, det = "cached-not-live-leaf", fmt.Sprintf("cache holds %s (pos %d) which is not a live leaf", short(h), pos)
				}
				return nil
			}
			if ro.Pos(T) != pos && cls == "" {
				cls, det = "cached-wrong-pos", fmt.Sprintf("cached leaf %s at %d, true position %d", short(h), pos, ro.Pos(T))
			}
			cachedList = append(cachedList, h)
			return nil
		})
	})
	if err != nil {
		return "foreach-panic", err.Error()
	}
	if cls != "" {
		return cls, det
	}
	for _, h := range sortedKeys(n.remembered) {
		if _, ok := mp.CachedGet(h); !ok {
			return "remembered-lost", fmt.Sprintf("leaf %s was to be remembered (not since deleted or pruned) but is not cached", short(h))
		}
	}
	if mp.CachedLen() != len(n.remembered) {
		return "cached-extra", fmt.Sprintf("cache holds %d leaves, %d were asked for", mp.CachedLen(), len(n.remembered))
	}
	allowed := w.partialAllowed(n, st)
	byPos := map[uint64]H{}
	for ro, h := range L.Nodes {
		byPos[ro.Pos(T)] = h
	}
	rootPos := map[uint64]bool{}
	for _, r := range L.RootsAt {
		rootPos[r.Pos(T)] = true
	}
	stored := map[uint64]bool{}
	guard(func() error {
		return mp.NodesForEach(func(pos uint64, lf u.Leaf) error {
			stored[pos] = true
			if cls != "" {
				return nil
			}
			th, exists := byPos[pos]
			switch {
			case !exists:
				if !(rootPos[pos] && lf.Hash == zeroH) {
					cls, det = "stored-nonexistent", fmt.Sprintf("stores position %d where no node exists", pos)
				}
			case th != lf.Hash:
				cls, det = "stored-wrong-hash", fmt.Sprintf("position %d holds a hash that is not the node's", pos)
			case !allowed[pos]:
				cls, det = "stored-unneeded", fmt.Sprintf("stores position %d which no remembered leaf needs", pos)
			}
			return nil
		})
	})
	if cls != "" {
		return cls, det
	}
	for _, r := range L.RootsAt {
		if !stored[r.Pos(T)] {
			return "root-not-stored", fmt.Sprintf("root position %d is not stored", r.Pos(T))
		}
	}
	// every remembered leaf is provable with the canonical proof
	if len(cachedList) > 0 {
		sortH(cachedList)
		if len(cachedList) > 64 {
			cachedList = cachedList[:64]
		}
		want, _ := L.CanonProof(cachedList)
		var got u.Proof
		err, _ := guard(func() error { var e error; got, e = mp.Prove(cachedList); return e })
		if err != nil {
			return "prove-cached-err", fmt.Sprintf("cannot prove its remembered leaves: %v", err)
		}
		if !eqProof(got, want) {
			return "prove-cached-mismatch", "proof of the remembered leaves is not the canonical one"
		}
	}
	return "", ""
}

// nodeOp executes a node-directed scenario step.
func (w *World) nodeOp(n *Node, s *Step) {
	if n.dead || n.offline {
		return
	}
	switch s.Op {
	case "prune":
		w.opPrune(n, s)
	case "ingest":
		w.opIngest(n, s)
	case "part":
		d := s.Arg
		if d < 0 {
			d = -d
		}
		n.partUntil = w.now + int64(d%200)
		w.stats.Faults["partition"]++
		w.logf("%s: partitioned from the source until t=%d", n.name, n.partUntil)
	case "snap":
		w.opSnapshot(n, s)
	case "crash":
		w.opCrash(n, s)
	case "restart":
		if n.crashed {
			w.restartNode(n, s.Arg)
		}
	case "query":
		if !n.crashed {
			w.opQuery(n, s)
		}
	case "reimport":
		if !n.crashed && n.cfg.Kind == "light" {
			w.opReimport(n, s)
		}
	}
}

func (w *World) pickHashes(pool []H, picks []int) []H {
	var out []H
	pool = append([]H(nil), pool...)
	for _, p := range picks {
		if len(pool) == 0 {
			break
		}
		i := p % len(pool)
		if i < 0 {
			i = -i
		}
		out = append(out, pool[i])
		pool = append(pool[:i], pool[i+1:]...)
	}
	return out
}

func (w *World) opPrune(n *Node, s *Step) {
	if n.cfg.Kind == "mapfull" && !n.crashed && !n.dead {
		w.opPruneFull(n, s)
		return
	}
	if !n.isPartial() || n.crashed || n.cfg.FullRoots {
		return
	}
	if n.tainted {
		w.rebuild(n, n.at)
	}
	pool := sortedKeys(n.remembered)
	hs := w.pickHashes(pool, s.Picks)
	if len(hs) == 0 {
		// nothing is remembered: the call with an empty list (nil / empty non-nil)
		// must be a no-op as well
		hs = nil
		if s.Arg == 1 {
			hs = []H{}
		}
		w.stats.Reach["prune_empty_list"]++
		err, _ := guard(func() error { return n.mp.Prune(hs) })
		if err != nil {
			w.violate(n, "C09", "prune-err", fmt.Sprintf("Prune of an empty list failed: %v", err))
			return
		}
		w.checkNode(n, w.blocks[n.at].Post, "prune-empty")
		return
	}
	// sometimes include a hash that is not cached (must be ignored): a fresh one,
	// or a live leaf this node does not track
	if s.Arg == 1 {
		hs = append(hs, H{0xaa, 0xbb, 1})
		for _, h := range w.blocks[n.at].Post.Live() {
			if !n.remembered[h] {
				hs = append(hs, h)
				break
			}
		}
		// anywhere in the list, also in front of the cached ones
		ps := s.Seed ^ uint64(n.idx)*0x70c3
		for _, pk := range s.Picks {
			ps = mix64(ps ^ uint64(pk))
		}
		pr := SubRng(ps, "prune-mix")
		if pr.Bool() {
			hs = append(hs, hs[0]) // and one cached leaf named twice
		}
		pr.Shuffle(len(hs), func(i, j int) { hs[i], hs[j] = hs[j], hs[i] })
		w.stats.Reach["prune_list_with_uncached_hashes"]++
	}
	hs = padH(hs)
	w.stats.Events++
	w.stats.Faults["prune"]++
	n.ctxTarget, n.ctxSeed = n.at, mix64(w.sc.Seed^uint64(w.stats.Events)*0x9e37^uint64(n.idx)<<32)
	w.logf("%s: prune %d leaves", n.name, len(hs))
	n.ops = append(n.ops, nodeOp{kind: "prune", hashes: hs})
	n.hasCacheOps = true
	g := w.fp.begin("Prune", hs)
	err, _ := guard(func() error { return n.mp.Prune(hs) })
	g.end()
	if err != nil {
		w.violate(n, "C09", "prune-err", fmt.Sprintf("Prune of cached leaves failed: %v", err))
		n.tainted = true
		return
	}
	for _, h := range hs {
		delete(n.remembered, h)
	}
	w.checkNode(n, w.blocks[n.at].Post, "prune")
}

func (w *World) opIngest(n *Node, s *Step) {
	if !n.isPartial() || n.crashed {
		return
	}
	if n.tainted {
		w.rebuild(n, n.at)
	}
	st := w.blocks[n.at].Post
	hs := w.pickHashes(st.Live(), s.Picks)
	if len(hs) == 0 {
		return
	}
	ps := s.Seed ^ uint64(n.idx)*0x16e57
	for _, pk := range s.Picks {
		ps = mix64(ps ^ uint64(pk))
	}
	ir := SubRng(ps, "ingest-shape")
	if L := st.Layout(); ir.Pct(30) {
		// the untracked sibling of a remembered leaf: every proof position of the
		// request is already held, nothing has to be fetched, yet the leaf itself is new
		for _, h := range sortedKeys(n.remembered) {
			ro, ok := L.LeafAt[h]
			if !ok || L.IsRoot(ro) {
				continue
			}
			if sh, ok := L.Nodes[ro.Sib()]; ok && L.IsLeaf[ro.Sib()] && !n.remembered[sh] {
				hs = []H{sh}
				w.stats.Reach["ingest_sibling_of_remembered_leaf"]++
				break
			}
		}
	}
	hs = padH(hs)
	pr, _ := st.Layout().CanonProof(hs)
	if s.Arg != 2 && ir.Pct(25) {
		// an accepted encoding with unused trailing hashes
		pr.Proof = append(append([]H(nil), pr.Proof...), H{0x1e, 0x55, byte(ir.Next())})
		w.stats.Reach["ingest_proof_with_unused_hashes"]++
	}
	pr.Targets, pr.Proof = padU(pr.Targets), padH(pr.Proof)
	w.stats.Events++
	n.ctxTarget, n.ctxSeed = n.at, mix64(w.sc.Seed^uint64(w.stats.Events)*0x9e37^uint64(n.idx)<<32)
	n.hasCacheOps = true
	var err error
	switch {
	case s.Arg == 2:
		w.stats.Faults["ingest_partial_proof"]++
		w.logf("%s: fetch+VerifyPartialProof(remember) %d leaves", n.name, len(hs))
		n.ops = append(n.ops, nodeOp{kind: "ingest", hashes: hs, arg: 1})
		if !w.partialFetchVerify(n, st, hs, pr.Targets, true) {
			return
		}
	case s.Arg >= 1:
		w.stats.Faults["verify_remember"]++
		w.logf("%s: Verify(remember) %d leaves", n.name, len(hs))
		n.ops = append(n.ops, nodeOp{kind: "ingest", hashes: hs, arg: 1})
		g := w.fp.begin("Verify", hs, pr.Targets, pr.Proof)
		err, _ = guard(func() error { return n.mp.Verify(hs, pr, true) })
		g.end()
		if err != nil {
			w.blame(n, "verify-honest", "partial forest rejected an honest proof: "+err.Error())
			return
		}
	default:
		w.stats.Faults["ingest"]++
		w.logf("%s: Ingest %d leaves", n.name, len(hs))
		n.ops = append(n.ops, nodeOp{kind: "ingest", hashes: hs, arg: 0})
		g := w.fp.begin("Ingest", hs, pr.Targets, pr.Proof)
		err, _ = guard(func() error { return n.mp.Ingest(hs, pr) })
		g.end()
		if err != nil {
			w.violate(n, "C09", "ingest-err", fmt.Sprintf("Ingest of an honest proof failed: %v", err))
			n.tainted = true
			return
		}
	}
	for _, h := range hs {
		n.remembered[h] = true
	}
	w.checkNode(n, st, "ingest")
}

// opReimport: a light client replaces its cached proof by one it received from
// a bridge for the same leaves — targets in the prover's (request) order, not sorted.
func (w *World) opReimport(n *Node, s *Step) {
	if len(n.held) < 2 {
		return
	}
	st := w.blocks[n.at].Post
	hs := sortedKeys(n.held)
	r := SubRng(s.Seed, "reimport")
	r.Shuffle(len(hs), func(i, j int) { hs[i], hs[j] = hs[j], hs[i] })
	pr, ok := st.Layout().CanonProof(hs)
	if !ok {
		return
	}
	n.ch = padH(hs)
	up := n.upProof(pr, st.N) // (a node embedded at a big offset holds big positions)
	n.cp.Targets, n.cp.Proof = padU(up.Targets), padH(up.Proof)
	w.stats.Reach["light_reimport_unsorted"]++
	w.logf("%s: re-imported cached proof for %d leaves in prover order", n.name, len(hs))
}

// opPruneFull: Prune on a full map forest.  A full forest tracks every leaf;
// the call must change nothing (every oracle of the node is evaluated against
// the unchanged state, and later blocks must still apply).
func (w *World) opPruneFull(n *Node, s *Step) {
	if n.tainted {
		w.rebuild(n, n.at)
		if n.dead {
			return
		}
	}
	st := w.blocks[n.at].Post
	hs := w.pickHashes(st.Live(), s.Picks)
	if len(hs) == 0 {
		return
	}
	hs = padH(hs)
	w.stats.Events++
	w.stats.Faults["prune_on_full_forest"]++
	n.ctxTarget, n.ctxSeed = n.at, mix64(w.sc.Seed^uint64(w.stats.Events)*0x9e37^uint64(n.idx)<<32)
	w.logf("%s: prune %d leaves (full forest: must be a no-op)", n.name, len(hs))
	n.ops = append(n.ops, nodeOp{kind: "prune", hashes: hs})
	n.hasCacheOps = true
	g := w.fp.begin("Prune", hs)
	err, _ := guard(func() error { return n.mp.Prune(hs) })
	g.end()
	if err != nil {
		w.violate(n, "C09", "prune-err", fmt.Sprintf("Prune on a full forest failed: %v", err))
		n.tainted = true
		return
	}
	w.checkNode(n, st, "prune-full")
}
