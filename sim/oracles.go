package main

import (
	"fmt"
	"sort"

	u "github.com/utreexo/utreexo"
)

// obs is one disagreement between a node and the model.
type obs struct {
	kind   string // roots | lookup | prove | verify-honest | apply-err
	class  string
	detail string
}

// checkNode runs the observation oracles on a node that is (supposed to be) in
// model state st, and reports every disagreement under the property that owns it.
func (w *World) checkNode(n *Node, st *State, phase string) {
	if n.dead {
		return
	}
	seed := n.ctxSeed
	for _, o := range w.observe(n, st, seed) {
		if w.stop {
			return
		}
		base := map[string]string{"roots": "C01", "lookup": "C10", "prove": "C02"}[o.kind]
		prop := base
		if o.kind == "roots" || base != w.opt.Property {
			prop = w.attr(n, base, o.kind)
		}
		// Look-up and proving observations are only made once leaf count and roots
		// agree with the model.  C10 and C02 quantify over every reachable state
		// (also after Undo, Verify-with-remember, restore), so their own checks own
		// such a mismatch whatever the node's provenance; the checks of C06 / C09 /
		// C13 additionally see it through the attribution twins.
		w.violate(n, prop, o.class, fmt.Sprintf("[%s, block %d] %s", phase, n.at, o.detail))
		if o.kind == "roots" {
			n.tainted = true
		}
	}
	if w.stop {
		return
	}
	if n.pol != nil && w.opt.Property == "C13" && (phase != "undo" && mix64(seed^0x512e)%10 < 6 || phase == "undo" && mix64(seed^0x512e)%10 < 1) {
		// the predicted size must match what WriteTo produces in any state, not only
		// when a snapshot happens to be taken (asked after a seeded 60 % of the
		// forward events and 10 % of the undo steps, so that "asked, not asked while
		// the forest goes back and takes another branch, asked again" is common: a
		// stale cached answer needs exactly that)
		w.count("serialize_size")
		var sz int
		var cnt int64
		cw := &countWriter{}
		err, _ := guard(func() error { sz = n.pol.SerializeSize(); var e error; cnt, e = n.pol.WriteTo(cw); return e })
		if err != nil {
			w.violate(n, "C13", "write-err", fmt.Sprintf("[%s, block %d] WriteTo to a healthy sink failed: %v", phase, n.at, err))
		} else if sz != cw.n || cnt != int64(cw.n) {
			w.violate(n, "C13", "serialize-size", fmt.Sprintf("[%s, block %d] SerializeSize predicted %d, WriteTo reported %d, the sink received %d bytes", phase, n.at, sz, cnt, cw.n))
		}
	}
	if n.isPartial() && w.on("partial") && !n.tainted && !n.cfg.FullRoots {
		w.checkPartialContent(n, st, phase)
	}
	if n.cfg.Kind == "stump" && !n.tainted {
		w.stumpCoincident(n, st, seed)
	}
	if n.cfg.Kind == "light" && w.on("light") {
		w.lightCoincident(n, st, seed)
	}
}

// observe compares everything observable through the public API with the model.
func (w *World) observe(n *Node, st *State, seed uint64) (out []obs) {
	L := st.Layout()
	add := func(kind, class, format string, a ...interface{}) {
		out = append(out, obs{kind, class, fmt.Sprintf(format, a...)})
	}
	// --- roots and leaf count (always on: it is also the state-sanity check)
	w.count("roots")
	var roots []H
	var num uint64
	if n.isStumpy() {
		var ok bool
		if roots, num, ok = n.smallView(); !ok {
			add("roots", "big-part-changed", "the roots / leaf count of the untouched big trees changed (leaf count %d, offset %d)", n.st.NumLeaves, n.cfg.Big)
			return
		}
	} else {
		err, _ := guard(func() error { roots, num = n.acc.GetRoots(), n.acc.GetNumLeaves(); return nil })
		if err != nil {
			add("roots", "roots-panic", "GetRoots/GetNumLeaves: %v", err)
			return
		}
		w.fp.track("roots", roots)
	}
	if num != st.N {
		add("roots", "numleaves", "leaf count %d, model %d", num, st.N)
		return
	}
	if !eqHashes(roots, L.Roots) {
		d := firstDiff(roots, L.Roots)
		gs, ms := "-", "-"
		if d < len(roots) {
			gs = short(roots[d])
		}
		if d < len(L.Roots) {
			ms = short(L.Roots[d])
		}
		add("roots", "roots", "roots differ from the model (%d roots, model %d; first difference at index %d: got %s, model %s; N=%d)", len(roots), len(L.Roots), d, gs, ms, st.N)
		if w.opt.Property == "C10" && w.on("lookup") && !n.isStumpy() {
			// C10 quantifies over every reachable state, and a forest whose roots are
			// wrong is one: the look-up of a leaf by hash is still asked (the leaf count
			// agrees, so every model position is meaningful) and a lie is reported under
			// C10 next to the root mismatch, which C01 owns.
			lp, _ := w.observeLeafPos(n, st)
			out = append(out, lp...)
		}
		return
	}
	if n.isStumpy() {
		return
	}
	if n.isMap() && !n.big() {
		// the verifier snapshot handed out by the forest must be the same state
		var sn u.Stump
		if err, _ := guard(func() error { sn = n.mp.m.GetStump(); return nil }); err != nil {
			add("roots", "getstump-panic", "GetStump: %v", err)
			return
		}
		if sn.NumLeaves != st.N || !eqHashes(sn.Roots, L.Roots) {
			add("roots", "getstump", "GetStump reports %d leaves / %d roots that differ from GetRoots and the model (N=%d)", sn.NumLeaves, len(sn.Roots), st.N)
			return
		}
		w.fp.track("stump-roots", sn.Roots)
	}
	if n.isMap() {
		// the allocated height must be able to hold the leaves
		if rowsFor(st.N) > n.mp.Rows() {
			add("roots", "totalrows-too-small", "TotalRows %d < rows needed %d", n.mp.Rows(), rowsFor(st.N))
		}
	}
	if w.on("lookup") {
		out = append(out, w.observeLookups(n, st, seed)...)
	}
	if w.on("prove") {
		out = append(out, w.observeProofs(n, st, seed)...)
	}
	return
}

func firstDiff(a, b []H) int {
	for i := 0; i < len(a) && i < len(b); i++ {
		if a[i] != b[i] {
			return i
		}
	}
	if len(a) < len(b) {
		return len(a)
	}
	return len(b)
}

// tracked: the leaves the node is expected to track.
func (n *Node) tracks(h H) bool {
	if n.isPartial() {
		return n.remembered[h]
	}
	return true
}

// observeLookups: C10.
// observeLeafPos: hash -> position for every leaf the model has ever seen.
func (w *World) observeLeafPos(n *Node, st *State) (out []obs, tracked []H) {
	L := st.Layout()
	add := func(class, format string, a ...interface{}) {
		out = append(out, obs{"lookup", class, fmt.Sprintf(format, a...)})
	}
	for i, h := range st.Leaves {
		var pos uint64
		var ok bool
		err, _ := guard(func() error { pos, ok = n.acc.GetLeafPosition(h); return nil })
		if err != nil {
			add("leafpos-panic", "GetLeafPosition: %v", err)
			return
		}
		if st.Alive[i] && n.tracks(h) {
			want := L.LeafAt[h].Pos(L.R)
			tracked = append(tracked, h)
			if !ok || pos != want {
				add("leafpos-live", "live leaf %s (slot %d): got (%d,%v), model position %d", short(h), i, pos, ok, want)
				return
			}
		} else if st.Alive[i] {
			// live but not tracked by this partial node
			if ok {
				add("leafpos-untracked", "untracked leaf %s reported at %d", short(h), pos)
				return
			}
		} else if ok && !st.IsLive(h) {
			add("leafpos-dead", "deleted leaf %s (slot %d) reported at position %d", short(h), i, pos)
			return
		}
	}
	return
}

func (w *World) observeLookups(n *Node, st *State, seed uint64) (out []obs) {
	L := st.Layout()
	add := func(class, format string, a ...interface{}) {
		out = append(out, obs{"lookup", class, fmt.Sprintf(format, a...)})
	}
	w.count("lookup")
	r := SubRng(seed, "lookup")
	full := !n.isPartial()
	// hash -> position
	out, tracked := w.observeLeafPos(n, st)
	if len(out) > 0 {
		return
	}
	probe := func(h H, what string) bool {
		var pos uint64
		var ok bool
		guard(func() error { pos, ok = n.acc.GetLeafPosition(h); return nil })
		if ok {
			add("leafpos-"+what, "%s hash %s reported as a leaf at position %d", what, short(h), pos)
			return false
		}
		return true
	}
	for _, h := range L.InternalHashes() {
		if st.IsLive(h) {
			continue // a live leaf that carries the same bytes as an internal node
		}
		if !probe(h, "internal") {
			return
		}
	}
	var fresh H
	fresh[0], fresh[5], fresh[31] = 0xfe, byte(r.Next()), 0x11
	if !probe(zeroH, "zero") || !probe(fresh, "fresh") {
		return
	}
	// never-added hashes that share a long prefix or suffix with a tracked live leaf
	for k := 0; k < 3 && len(tracked) > 0; k++ {
		h := tracked[r.Intn(len(tracked))]
		nm := h
		switch k {
		case 0:
			nm[31] ^= 0x80 // same first 31 bytes
		case 1:
			nm[12+r.Intn(19)] ^= byte(1 + r.Intn(255)) // same first 12 bytes
		case 2:
			nm[r.Intn(4)] ^= byte(1 + r.Intn(255)) // same tail
		}
		if _, live := L.LeafAt[nm]; live {
			continue
		}
		if !probe(nm, "near-miss") {
			return
		}
	}
	// leaves that exist only on other branches / in undone blocks: never added in this state
	if len(w.blocks) > 1 {
		inState := make(map[H]bool, len(st.Leaves))
		for _, h := range st.Leaves {
			inState[h] = true
		}
		budget := 48
		for bi := len(w.blocks) - 1; bi >= 1 && budget > 0; bi-- {
			for _, h := range w.blocks[bi].Adds {
				if inState[h] {
					break // this block is part of the state's history
				}
				budget--
				if !probe(h, "other-branch") {
					return
				}
				if budget <= 0 {
					break
				}
			}
		}
	}
	// batch look-up on map forests
	if n.isMap() && len(st.Leaves) > 0 {
		q := make([]H, 0, 8)
		for i := 0; i < 6; i++ {
			q = append(q, st.Leaves[r.Intn(len(st.Leaves))])
		}
		q = append(q, fresh)
		q = padH(q)
		switch r.Intn(12) {
		case 0:
			q = nil // an empty request: an empty answer
		case 1:
			q = q[:0]
		case 2:
			q = append(q, q[0], q[1]) // the same hashes asked twice in one request
		}
		var got []uint64
		g := w.fp.begin("GetLeafHashPositions", q)
		if err, _ := guard(func() error { got = n.mp.GetLeafHashPositions(q); return nil }); err != nil {
			add("leafhashpositions-panic", "GetLeafHashPositions(%d hashes): %v", len(q), err)
			return
		}
		g.end()
		if len(got) != len(q) {
			add("leafhashpositions-len", "GetLeafHashPositions returned %d entries for %d hashes", len(got), len(q))
			return
		}
		for i, h := range q {
			want := uint64(0)
			if ro, ok := L.LeafAt[h]; ok && n.tracks(h) {
				want = ro.Pos(L.R)
			}
			if got[i] != want {
				add("leafhashpositions", "GetLeafHashPositions[%d]=%d, model %d", i, got[i], want)
				return
			}
		}
	}
	// position -> hash, over [0, 2^(rows+1)+3]
	maxPos := (uint64(2) << L.R) + 3
	var allowed map[uint64]bool
	if !full {
		allowed = w.partialAllowed(n, st)
	}
	for pos := uint64(0); pos <= maxPos; pos++ {
		var got H
		err, _ := guard(func() error { got = n.acc.GetHash(pos); return nil })
		if err != nil {
			add("gethash-panic", "GetHash(%d): %v", pos, err)
			return
		}
		want, exists := L.HashAt(pos, L.R)
		if !exists {
			want, exists = w.altNumbering(n, st, pos)
		}
		switch {
		case full && exists && got != want:
			add("gethash-wrong", "GetHash(%d) differs from the node there (N=%d)", pos, st.N)
			return
		case !exists && got != zeroH:
			cls := "gethash-vacant"
			if ro, in := roOfPos(pos, L.R); !in || !w.inForestRO(ro, st.N) {
				cls = "gethash-outside"
			}
			add(cls, "GetHash(%d) returned %s but no node exists there (N=%d rows=%d)", pos, short(got), st.N, L.R)
			return
		case !full && exists && got != zeroH && got != want:
			add("gethash-wrong", "partial forest: GetHash(%d) returned a hash that is not the node's", pos)
			return
		case !full && exists && got != zeroH && !allowed[pos]:
			// stored but not needed: C09's matter, not a look-up lie
		}
	}
	// a few far-away positions
	for _, pos := range []uint64{maxPos + 1 + uint64(r.Intn(1000)), uint64(1) << 40, uint64(1)<<63 + 5, ^uint64(0)} {
		var got H
		err, _ := guard(func() error { got = n.acc.GetHash(pos); return nil })
		if err != nil {
			add("gethash-panic", "GetHash(%d): %v", pos, err)
			return
		}
		if alt, ok := w.altNumbering(n, st, pos); ok && (got == alt || (!full && got == zeroH)) {
			continue
		}
		if got != zeroH {
			add("gethash-outside", "GetHash(%d) returned %s for a position far outside the forest (N=%d)", pos, short(got), st.N)
			return
		}
	}
	// counts
	live := st.NumLive()
	if n.pol != nil {
		if len(n.pol.NodeMap) != live || n.pol.NumLeaves-n.pol.NumDels != uint64(live) {
			add("count", "Pollard tracks %d leaves (NumLeaves-NumDels=%d), model has %d live", len(n.pol.NodeMap), n.pol.NumLeaves-n.pol.NumDels, live)
		}
	}
	if n.cfg.Kind == "mapfull" {
		if c := n.mp.CachedLen(); c != live {
			add("count", "full map forest tracks %d leaves, model has %d live", c, live)
		}
	}
	return
}

// altNumbering: a map forest also answers for positions given in the numbering
// of its allocated height (GetTreeRows) — the library's own tests and String()
// read it that way.  Existing nodes never collide between the two numberings
// (minimal-numbering positions are < 2^(rows+1), allocated-numbering positions
// above row 0 are >= 2^TotalRows >= 2^(rows+1)).
func (w *World) altNumbering(n *Node, st *State, pos uint64) (H, bool) {
	if !n.isMap() {
		return H{}, false
	}
	L := st.Layout()
	T := n.mp.Rows()
	if T == L.R || T > 63 {
		return H{}, false
	}
	if ro, ok := roOfPos(pos, L.R); ok && w.inForestRO(ro, st.N) {
		return H{}, false
	}
	return L.HashAt(pos, T)
}

// inForestRO: does place ro lie inside some tree of a forest with n leaves?
func (w *World) inForestRO(ro RO, n uint64) bool { return inForestRO(ro, n) }

func inForestRO(ro RO, n uint64) bool {
	lo := ro.O << ro.R
	for _, t := range treesOf(n) {
		if ro.R <= t.h && lo >= t.lo && lo < t.lo+(uint64(1)<<t.h) {
			return true
		}
	}
	return false
}

// observeProofs: C02.  Seeded non-empty subsets of the tracked live leaves in
// seeded order; the proof must equal the model's canonical proof and must be
// accepted by every verifier.
func (w *World) observeProofs(n *Node, st *State, seed uint64) (out []obs) {
	L := st.Layout()
	add := func(class, format string, a ...interface{}) {
		out = append(out, obs{"prove", class, fmt.Sprintf(format, a...)})
	}
	var pool []H
	for i, h := range st.Leaves {
		if st.Alive[i] && n.tracks(h) {
			pool = append(pool, h)
		}
	}
	if len(pool) == 0 {
		return
	}
	r := SubRng(seed, "prove")
	nreq := 2
	if w.opt.Property == "C02" || w.opt.Property == "C06" {
		nreq = 4
	}
	var exhaustive [][]H
	if w.opt.Property == "C02" && len(pool) <= 7 && r.Pct(20) {
		// small state: every non-empty subset of the tracked live leaves, in pool
		// order and (two or more leaves) in a seeded order as well
		w.stats.Reach["prove_all_subsets_of_state"]++
		for mask := 1; mask < 1<<uint(len(pool)); mask++ {
			var sub []H
			for i, h := range pool {
				if mask&(1<<uint(i)) != 0 {
					sub = append(sub, h)
				}
			}
			exhaustive = append(exhaustive, sub)
			if len(sub) >= 2 {
				s2 := append([]H(nil), sub...)
				r.Shuffle(len(s2), func(i, j int) { s2[i], s2[j] = s2[j], s2[i] })
				exhaustive = append(exhaustive, s2)
			}
		}
	}
	for q := 0; q < nreq+len(exhaustive); q++ {
		var sub []H
		if q < nreq {
			sub = w.pickSubset(r, st, pool)
		} else {
			sub = exhaustive[q-nreq]
		}
		w.count("prove")
		sub = padH(sub)
		var got u.Proof
		g := w.fp.begin("Prove", sub)
		err, _ := guard(func() error { var e error; got, e = n.acc.Prove(sub); return e })
		g.end()
		if err != nil {
			add("prove-err", "Prove of %d live tracked leaves failed: %v", len(sub), err)
			return
		}
		w.fp.track("proof", got.Targets, got.Proof)
		want, _ := L.CanonProof(sub)
		if !eqU64(got.Targets, want.Targets) {
			add("prove-targets", "Prove targets %v, model %v (N=%d)", got.Targets, want.Targets, st.N)
			return
		}
		if !eqHashes(got.Proof, want.Proof) {
			add("prove-hashes", "Prove returned %d proof hashes, canonical has %d (or contents differ); targets %v N=%d", len(got.Proof), len(want.Proof), got.Targets, st.N)
			return
		}
		// accepted everywhere
		stump := u.Stump{Roots: append([]H(nil), L.Roots...), NumLeaves: st.N}
		var idx []int
		g = w.fp.begin("Verify", sub, got.Targets, got.Proof, stump.Roots)
		err, _ = guard(func() error { var e error; idx, e = u.Verify(stump, sub, got); return e })
		g.end()
		if err != nil {
			add("verify-reject", "stand-alone Verify rejected a prover's proof: %v", err)
			return
		}
		if wantIdx := L.TreesWith(sub); !sameIntSet(idx, wantIdx) {
			add("verify-root-indexes", "Verify reported trees %v, targets lie in %v", idx, wantIdx)
			return
		}
		g = w.fp.begin("acc.Verify", sub, got.Targets, got.Proof)
		err, _ = guard(func() error { return n.acc.Verify(sub, got, false) })
		g.end()
		if err != nil {
			add("verify-reject", "the forest's own Verify rejected its proof: %v", err)
			return
		}
	}
	if w.opt.Property == "C17" && n.isMap() && !n.big() && n.mp.Rows() != L.R && r.Pct(30) {
		// a proof whose targets are numbered for the forest's allocated height (the
		// map forest reads both numberings): the answer is not judged here, the
		// caller's slices must come back as they were (fingerprints)
		sub := padH(w.pickSubset(r, st, pool))
		pr, _ := L.CanonProof(sub)
		ts := make([]uint64, len(pr.Targets))
		for i, h := range sub {
			ts[i] = L.LeafAt[h].Pos(n.mp.Rows())
		}
		pr.Targets, pr.Proof = padU(ts), padH(pr.Proof)
		g := w.fp.begin("acc.Verify", sub, pr.Targets, pr.Proof)
		guard(func() error { return n.acc.Verify(sub, pr, false) })
		g.end()
		w.stats.Reach["verify_targets_in_allocated_height_numbering"]++
	}
	if w.opt.Property == "C17" && len(pool) >= 2 && r.Pct(25) {
		// a request that names a leaf twice in a row: whatever the answer is (not
		// judged), the caller's list must come back as it was (fingerprints)
		dup := padH([]H{pool[0], pool[0], pool[1]})
		g := w.fp.begin("Prove", dup)
		guard(func() error { _, e := n.acc.Prove(dup); return e })
		g.end()
		w.stats.Reach["prove_request_names_a_leaf_twice"]++
	}
	// non-live / untracked hashes are not provable
	if w.on("provable-set") {
		for i, h := range st.Leaves {
			if !st.Alive[i] && !st.IsLive(h) {
				err, _ := guard(func() error { _, e := n.acc.Prove([]H{h}); return e })
				if err == nil && st.N > 1 {
					add("prove-dead", "Prove succeeded for deleted leaf %s", short(h))
					return
				}
				break
			}
		}
	}
	return
}

// pickSubset: biased non-empty subset of pool in seeded order.
func (w *World) pickSubset(r *Rng, st *State, pool []H) []H {
	L := st.Layout()
	var sub []H
	switch r.Weighted(3, 2, 3, 2, 2, 2) {
	case 0: // single leaf
		sub = []H{pool[r.Intn(len(pool))]}
	case 1: // all
		sub = append(sub, pool...)
	case 2: // random subset
		for _, h := range pool {
			if r.Pct(40) {
				sub = append(sub, h)
			}
		}
	case 3: // sibling pairs
		for _, h := range pool {
			ro := L.LeafAt[h]
			if sh, ok := L.Nodes[ro.Sib()]; ok && L.IsLeaf[ro.Sib()] && r.Pct(50) {
				sub = append(sub, h, sh)
			}
		}
		sub = dedupH(sub)
	case 4: // leaves that climbed at least two rows
		for _, h := range pool {
			if L.LeafAt[h].R >= 2 {
				sub = append(sub, h)
			}
		}
	case 5: // one per tree
		seen := map[int]bool{}
		for _, h := range pool {
			t := L.RootOf(L.LeafAt[h])
			if !seen[t] {
				seen[t] = true
				sub = append(sub, h)
			}
		}
	}
	// keep only pool members (sibling bias may add untracked leaves)
	in := map[H]bool{}
	for _, h := range pool {
		in[h] = true
	}
	k := 0
	for _, h := range sub {
		if in[h] {
			sub[k] = h
			k++
		}
	}
	sub = sub[:k]
	if len(sub) == 0 {
		sub = []H{pool[r.Intn(len(pool))]}
	}
	if len(sub) > 48 {
		sub = sub[:48]
	}
	r.Shuffle(len(sub), func(i, j int) { sub[i], sub[j] = sub[j], sub[i] })
	return sub
}

func dedupH(a []H) []H {
	seen := map[H]bool{}
	k := 0
	for _, h := range a {
		if !seen[h] {
			seen[h] = true
			a[k] = h
			k++
		}
	}
	return a[:k]
}

// ---------------------------------------------------------------------------
// C11

func (w *World) checkUpdateData(n *Node, b *Block, ud u.UpdateData) {
	w.count("updatedata")
	e := ExpectedUpdate(b.Pre, b.Mid, b.Post, b.Dels, b.Adds)
	bad := func(class, format string, a ...interface{}) {
		w.violate(n, "C11", class, fmt.Sprintf("block %d (N %d->%d, %d dels, %d adds): ", b.ID, b.Pre.N, b.Post.N, len(b.Dels), len(b.Adds))+fmt.Sprintf(format, a...))
	}
	if ud.PrevNumLeaves != e.PrevNumLeaves {
		bad("prevnumleaves", "PrevNumLeaves %d, expected %d", ud.PrevNumLeaves, e.PrevNumLeaves)
		return
	}
	if !eqU64(ud.ToDestroy, e.ToDestroy) && !(len(ud.ToDestroy) == 0 && len(e.ToDestroy) == 0) {
		bad("todestroy", "ToDestroy %v, expected %v", ud.ToDestroy, e.ToDestroy)
		return
	}
	if len(ud.NewDelPos) != len(ud.NewDelHash) || len(ud.NewAddPos) != len(ud.NewAddHash) {
		bad("len-skew", "positions and hashes have different lengths")
		return
	}
	if !eqU64(ud.NewDelPos, e.DelPos) {
		if len(ud.NewDelPos) > 64 || len(e.DelPos) > 64 {
			i := 0
			for i < len(ud.NewDelPos) && i < len(e.DelPos) && ud.NewDelPos[i] == e.DelPos[i] {
				i++
			}
			bad("delpos", "NewDelPos has %d entries, expected %d; first difference at index %d", len(ud.NewDelPos), len(e.DelPos), i)
			return
		}
		bad("delpos", "NewDelPos %v, expected %v", ud.NewDelPos, e.DelPos)
		return
	}
	if !eqHashes(ud.NewDelHash, e.DelHash) {
		bad("delhash", "NewDelHash differs at index %d (positions %v)", firstDiff(ud.NewDelHash, e.DelHash), e.DelPos)
		return
	}
	if !eqU64(ud.NewAddPos, e.AddPos) {
		cls := "addpos"
		if missingOnlyLoneRoots(ud.NewAddPos, e.AddPos, b.Post) {
			cls = "addpos-lone-root-leaf-missing"
		}
		if len(ud.NewAddPos) > 64 || len(e.AddPos) > 64 {
			i := 0
			for i < len(ud.NewAddPos) && i < len(e.AddPos) && ud.NewAddPos[i] == e.AddPos[i] {
				i++
			}
			g, x := uint64(0), uint64(0)
			if i < len(ud.NewAddPos) {
				g = ud.NewAddPos[i]
			}
			if i < len(e.AddPos) {
				x = e.AddPos[i]
			}
			bad(cls, "NewAddPos has %d entries, expected %d; first difference at index %d: got %d, expected %d", len(ud.NewAddPos), len(e.AddPos), i, g, x)
			return
		}
		bad(cls, "NewAddPos %v, expected %v", ud.NewAddPos, e.AddPos)
		return
	}
	if !eqHashes(ud.NewAddHash, e.AddHash) {
		bad("addhash", "NewAddHash differs at index %d (positions %v)", firstDiff(ud.NewAddHash, e.AddHash), e.AddPos)
		return
	}
}

// missingOnlyLoneRoots: got ⊂ want and every missing position is a tree root that is a leaf.
func missingOnlyLoneRoots(got, want []uint64, post *State) bool {
	L := post.Layout()
	gs := map[uint64]bool{}
	for _, p := range got {
		gs[p] = true
	}
	ws := map[uint64]bool{}
	for _, p := range want {
		ws[p] = true
	}
	for p := range gs {
		if !ws[p] {
			return false
		}
	}
	n := 0
	for p := range ws {
		if gs[p] {
			continue
		}
		ro, ok := roOfPos(p, L.R)
		if !ok || !L.IsRoot(ro) || !L.IsLeaf[ro] {
			return false
		}
		n++
	}
	return n > 0
}

// ---------------------------------------------------------------------------
// light client (C07, C08)

func (w *World) lightUpdate(n *Node, b *Block, nb *nodeBlk) {
	flags := w.remFlags(n, b)
	nb.rem = make([]uint32, 0, len(flags)+1)
	for i, f := range flags {
		if f {
			nb.rem = append(nb.rem, uint32(i))
		}
	}
	if dr := SubRng(b.Seed^uint64(n.idx+1)*0xd0b1e, "rem-dup"); len(nb.rem) > 0 && dr.Pct(15) {
		// the same index named twice (ascending order kept): the same request
		k := dr.Intn(len(nb.rem))
		nb.rem = append(nb.rem[:k+1], nb.rem[k:]...)
		w.stats.Reach["light_remember_index_twice"]++
	}
	ud := nb.ud
	chIn := n.ch
	bt := n.upSlice(b.Proof.Targets, b.Pre.N)
	if SubRng(b.Seed^uint64(n.idx+1)*0x50f7, "sorted-targets").Pct(35) {
		// the block's targets in ascending order (the call takes no hashes beside
		// them, so any order is the same request)
		bt = padU(append([]uint64(nil), bt...))
		sortU(bt)
		w.stats.Reach["light_update_sorted_block_targets"]++
	}
	g := w.fp.begin("Proof.Update", chIn, b.Adds, bt, nb.rem, ud.ToDestroy, ud.NewDelHash, ud.NewDelPos, ud.NewAddHash, ud.NewAddPos, n.cp.Targets, n.cp.Proof)
	var out []H
	err, _ := guard(func() error {
		var e error
		out, e = n.cp.Update(chIn, b.Adds, bt, nb.rem, ud)
		return e
	})
	g.end()
	if err != nil {
		w.violate(n, "C07", "update-err", fmt.Sprintf("Proof.Update failed on block %d: %v", b.ID, err))
		w.lightResync(n, b.Post)
		return
	}
	n.ch = out
	w.fp.track("cached-hashes", out)
	w.fp.track("cached-proof", n.cp.Targets, n.cp.Proof)
	for _, d := range b.Dels {
		delete(n.held, d)
	}
	L := b.Post.Layout()
	for _, r := range nb.rem {
		n.held[b.Adds[r]] = true
		if ro := L.LeafAt[b.Adds[r]]; L.IsRoot(ro) {
			w.stats.Reach["lone_root_remembered"]++
		}
	}
	if w.on("light") {
		w.count("light_update")
		if cls, det := w.lightMismatch(n, b.Post); cls != "" {
			if cls == "held-set" && w.heldMissingOnlyLoneRoots(n, b.Post) {
				cls = "held-set-lone-root-leaf-missing"
			}
			w.violate(n, "C07", cls, fmt.Sprintf("after Update for block %d (N %d->%d): %s", b.ID, b.Pre.N, b.Post.N, det))
			w.lightResync(n, b.Post)
		}
	}
}

func (w *World) heldMissingOnlyLoneRoots(n *Node, st *State) bool {
	L := st.Layout()
	got := map[H]bool{}
	for _, h := range n.ch {
		if !n.held[h] {
			return false
		}
		got[h] = true
	}
	k := 0
	for h := range n.held {
		if got[h] {
			continue
		}
		ro := L.LeafAt[h]
		if !L.IsRoot(ro) {
			return false
		}
		k++
	}
	return k > 0
}

// lightMismatch compares the cached proof with the model: held set exact,
// true positions, canonical proof hashes, accepted by Verify.
func (w *World) lightMismatch(n *Node, st *State) (string, string) {
	L := st.Layout()
	if len(n.ch) != len(n.cp.Targets) {
		return "len-skew", fmt.Sprintf("%d cached hashes but %d targets", len(n.ch), len(n.cp.Targets))
	}
	got := map[H]bool{}
	for _, h := range n.ch {
		if got[h] {
			return "held-dup", "a leaf is held twice"
		}
		got[h] = true
	}
	if len(got) != len(n.held) {
		return "held-set", fmt.Sprintf("holds %d leaves, expected %d%s", len(got), len(n.held), w.heldDiff(n, got, L))
	}
	for h := range n.held {
		if !got[h] {
			return "held-set", "held set differs" + w.heldDiff(n, got, L)
		}
	}
	for i, h := range n.ch {
		ro, ok := L.LeafAt[h]
		if !ok {
			return "held-dead", "holds a leaf that is not live"
		}
		if n.up(ro.Pos(L.R), st.N) != n.cp.Targets[i] {
			return "wrong-pos", fmt.Sprintf("leaf %s paired with position %d, true position %d (small forest: %d)", short(h), n.cp.Targets[i], n.up(ro.Pos(L.R), st.N), ro.Pos(L.R))
		}
	}
	want, _ := L.CanonProof(n.ch)
	if !eqHashes(want.Proof, n.cp.Proof) {
		return "noncanonical", fmt.Sprintf("proof has %d hashes, canonical has %d (or contents differ)", len(n.cp.Proof), len(want.Proof))
	}
	stump := n.bigStump(st)
	err, _ := guard(func() error { _, e := u.Verify(stump, n.ch, n.cp); return e })
	if err != nil {
		return "verify-reject", err.Error()
	}
	return "", ""
}

func (w *World) heldDiff(n *Node, got map[H]bool, L *Layout) string {
	s := ""
	for _, h := range n.ch {
		if !n.held[h] {
			_, live := L.LeafAt[h]
			s += fmt.Sprintf("; extra %s live=%v", short(h), live)
		}
	}
	for _, h := range sortedKeys(n.held) {
		if !got[h] {
			ro := L.LeafAt[h]
			s += fmt.Sprintf("; missing %s at row %d root=%v", short(h), ro.R, L.IsRoot(ro))
		}
	}
	return s
}

// lightResync: replace the cached proof by the model's canonical one.
func (w *World) lightResync(n *Node, st *State) {
	L := st.Layout()
	hs := sortedKeys(n.held)
	sort.Slice(hs, func(i, j int) bool { return L.LeafAt[hs[i]].Pos(L.R) < L.LeafAt[hs[j]].Pos(L.R) })
	pr, _ := L.CanonProof(hs)
	n.ch = hs
	n.cp = n.upProof(pr, st.N)
}

func (w *World) lightUndo(n *Node, b *Block) {
	nb := n.blk[b.ID]
	if nb == nil {
		panic("harness: light undo without block data")
	}
	ud := nb.ud
	chIn := n.ch
	numLeaves := b.Post.N
	bp := n.upProof(b.Proof, b.Pre.N)
	numLeaves += n.cfg.Big
	g := w.fp.begin("Proof.Undo", chIn, bp.Targets, b.Dels, ud.ToDestroy, bp.Proof, n.cp.Targets, n.cp.Proof)
	var out []H
	err, _ := guard(func() error {
		var e error
		out, e = n.cp.Undo(uint64(len(b.Adds)), numLeaves, bp.Targets, b.Dels, chIn, ud.ToDestroy, bp)
		return e
	})
	g.end()
	n.st = copyStump(nb.preStump)
	for _, a := range b.Adds {
		delete(n.held, a)
	}
	if err != nil {
		w.violate(n, "C08", "undo-err", fmt.Sprintf("Proof.Undo failed on block %d: %v", b.ID, err))
		w.lightResync(n, b.Pre)
		return
	}
	n.ch = out
	w.fp.track("cached-hashes", out)
	w.fp.track("cached-proof", n.cp.Targets, n.cp.Proof)
	if len(ud.ToDestroy) > 0 {
		w.stats.Reach["light_undo_with_destroyed_roots"]++
	}
	if b.Pre.N == 0 {
		w.stats.Reach["light_undo_to_empty"]++
	}
	if w.on("light") {
		w.count("light_undo")
		if cls, det := w.lightMismatch(n, b.Pre); cls != "" {
			cls = w.classifyC08(n, b, nb, cls)
			w.violate(n, "C08", cls, fmt.Sprintf("after Undo of block %d (N %d<-%d, toDestroy %v): %s", b.ID, b.Pre.N, b.Post.N, ud.ToDestroy, det))
			w.lightResync(n, b.Pre)
		}
	}
}

// classifyC08 refines the class of an undo mismatch (used for known-finding matching).
func (w *World) classifyC08(n *Node, b *Block, nb *nodeBlk, cls string) string {
	if b.Pre.N == 0 {
		return cls + "/undo-to-empty"
	}
	if len(nb.ud.ToDestroy) > 0 {
		return cls + "/destroyed-roots"
	}
	return cls
}
