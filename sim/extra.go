package main

// extraEngines: engines that are not network-simulation profiles.
func extraEngines(prop string) []Engine {
	switch prop {
	case "C03", "C04":
		return []Engine{&byzEngine{prop: prop}}
	case "C13":
		return []Engine{&diskEngine{}}
	case "C12":
		return []Engine{&c12Engine{}, &c12Engine{race: true}}
	}
	return nil
}
