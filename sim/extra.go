package main

// extraEngines: engines that are not network-simulation profiles.
func extraEngines(prop string) []Engine { return nil }
