package main

// extraEngines: engines that are not network-simulation profiles.
func extraEngines(prop string) []Engine {
	switch prop {
	case "C03", "C04":
		return []Engine{&byzEngine{prop: prop}}
	case "C13":
		return []Engine{&diskEngine{}}
	case "C01", "C06", "C07", "C08", "C09", "C11":
		return []Engine{&tallEngine{prop: prop}}
	case "C12":
		return []Engine{&c12Engine{}, &c12Engine{race: true}}
	}
	return nil
}
