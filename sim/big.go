package main

import (
	u "github.com/utreexo/utreexo"
)

// Embedding at a big offset (stump and light nodes).
//
// A real accumulator on Bitcoin's chain has seen more than 2^31 additions, so
// positions do not fit 32 bits and the forest has 32+ rows.  No history of
// that length can be simulated, but a verifier state is only roots and a leaf
// count: the node is created as Stump{NumLeaves: B, Roots: opaque} where B is
// a multiple of 2^20 (bit length 31..62) and the opaque roots are arbitrary
// hashes, one per set bit of B.  The simulated forest (at most a few thousand
// leaves, fully known to the reference model) then occupies the slots
// B .. B+n-1.  Because n < 2^20 its trees never merge with the opaque ones, and
// the place (row, offset) of every node of the small forest is simply
// (row, offset + B>>row) in the big one.  Every message to the node is
// translated small -> big, everything the node returns is translated back, and
// all oracles (update data, cached proof positions, verification) work
// unchanged on the translated values — now exercising the 64-bit position
// arithmetic at heights 31..62.

func bigOffset(r *Rng) uint64 {
	bits := []uint{31, 32, 33, 34, 40, 47, 55, 62, 63}[r.Intn(9)]
	b := (r.Next() | 1<<63) >> (64 - bits) // exactly `bits` bits
	switch r.Intn(10) {
	case 0, 1, 2:
		b = 1 << (bits - 1) // exactly a power of two: the forest sits just above it
	case 3:
		b = 1<<(bits-1) + 1<<20
	}
	b &^= 1<<20 - 1
	if b == 0 {
		b = 1 << (bits - 1)
	}
	return b
}

func (n *Node) big() bool { return n.cfg.Big != 0 }

func (n *Node) bigRoots() []H {
	var out []H
	B := n.cfg.Big
	for i := 63; i >= 0; i-- {
		if B&(uint64(1)<<uint(i)) == 0 {
			continue
		}
		var h H
		x := mix64(B ^ uint64(i)*0x9e3779b97f4a7c15)
		for k := range h {
			if k%8 == 0 {
				x = mix64(x)
			}
			h[k] = byte(x >> (uint(k%8) * 8))
		}
		if x%5 == 0 {
			h = H{} // an empty (fully deleted) big tree
		} else {
			h[31] |= 1
		}
		out = append(out, h)
	}
	return out
}

// up: small position (numbering for nSmall leaves) -> big position.
func (n *Node) up(pos, nSmall uint64) uint64 {
	if !n.big() {
		return pos
	}
	B := n.cfg.Big
	ro, ok := roOfPos(pos, rowsFor(nSmall))
	if !ok || ro.R > 20 {
		return pos
	}
	return RO{ro.R, ro.O + B>>ro.R}.Pos(rowsFor(B + nSmall))
}

// down: big position -> small position; positions outside the embedded part
// come back as distinct impossible values so that comparisons fail loudly.
func (n *Node) down(pos, nSmall uint64) uint64 {
	if !n.big() {
		return pos
	}
	B := n.cfg.Big
	ro, ok := roOfPos(pos, rowsFor(B+nSmall))
	if !ok || ro.R > 20 || ro.O < B>>ro.R {
		return ^uint64(0) - pos%4096
	}
	return RO{ro.R, ro.O - B>>ro.R}.Pos(rowsFor(nSmall))
}

func (n *Node) upSlice(ps []uint64, nSmall uint64) []uint64 {
	if !n.big() {
		return ps
	}
	out := make([]uint64, len(ps))
	for i, p := range ps {
		out[i] = n.up(p, nSmall)
	}
	return padU(out)
}

func (n *Node) upProof(p u.Proof, nSmall uint64) u.Proof {
	if !n.big() {
		return p
	}
	return u.Proof{Targets: n.upSlice(p.Targets, nSmall), Proof: p.Proof}
}

// downUD: update data in the small forest's terms (for the C11 oracle).
func (n *Node) downUD(ud u.UpdateData, pre, post uint64) u.UpdateData {
	if !n.big() {
		return ud
	}
	out := u.UpdateData{PrevNumLeaves: ud.PrevNumLeaves - n.cfg.Big, NewDelHash: ud.NewDelHash, NewAddHash: ud.NewAddHash}
	for _, p := range ud.ToDestroy {
		out.ToDestroy = append(out.ToDestroy, n.down(p, post))
	}
	for _, p := range ud.NewDelPos {
		out.NewDelPos = append(out.NewDelPos, n.down(p, pre))
	}
	for _, p := range ud.NewAddPos {
		out.NewAddPos = append(out.NewAddPos, n.down(p, post))
	}
	return out
}

// smallView: the node's stump with the opaque part stripped (ok=false if the
// opaque part changed, which no block may cause).
func (n *Node) smallView() (roots []H, num uint64, ok bool) {
	if !n.big() {
		return n.st.Roots, n.st.NumLeaves, true
	}
	op := n.bigRoots()
	if n.st.NumLeaves < n.cfg.Big || len(n.st.Roots) < len(op) || !eqHashes(n.st.Roots[:len(op)], op) {
		return n.st.Roots, n.st.NumLeaves, false
	}
	return n.st.Roots[len(op):], n.st.NumLeaves - n.cfg.Big, true
}

// bigStump: the verifier state a big node must hold in model state st.
func (n *Node) bigStump(st *State) u.Stump {
	L := st.Layout()
	if !n.big() {
		return u.Stump{Roots: append([]H(nil), L.Roots...), NumLeaves: st.N}
	}
	return u.Stump{Roots: append(n.bigRoots(), L.Roots...), NumLeaves: n.cfg.Big + st.N}
}
