package main

import (
	"sort"

	u "github.com/utreexo/utreexo"
)

// Deterministic implementations of the MapPollard storage interfaces (an
// existing seam: MapPollard.Nodes / CachedLeaves are exported interface-typed
// fields).  ForEach visits keys in a seed-permuted but fixed order, so the
// serialized bytes of a forest — and therefore "truncate at byte k" — replay
// exactly.  Put/Delete during ForEach are tolerated (iteration is over a
// snapshot of the keys; deleted keys are skipped).

type detNodes struct {
	m    map[uint64]u.Leaf
	seed uint64
}

func newDetNodes(seed uint64) *detNodes { return &detNodes{m: map[uint64]u.Leaf{}, seed: seed} }

func (d *detNodes) Get(k uint64) (u.Leaf, bool) { v, ok := d.m[k]; return v, ok }
func (d *detNodes) Put(k uint64, v u.Leaf)      { d.m[k] = v }
func (d *detNodes) Delete(k uint64)             { delete(d.m, k) }
func (d *detNodes) Length() int                 { return len(d.m) }
func (d *detNodes) ForEach(fn func(uint64, u.Leaf) error) error {
	keys := make([]uint64, 0, len(d.m))
	for k := range d.m {
		keys = append(keys, k)
	}
	sort.Slice(keys, func(i, j int) bool {
		a, b := mix64(keys[i]^d.seed), mix64(keys[j]^d.seed)
		if a != b {
			return a < b
		}
		return keys[i] < keys[j]
	})
	for _, k := range keys {
		v, ok := d.m[k]
		if !ok {
			continue
		}
		if err := fn(k, v); err != nil {
			return err
		}
	}
	return nil
}

type detCached struct {
	m    map[H]uint64
	seed uint64
}

func newDetCached(seed uint64) *detCached { return &detCached{m: map[H]uint64{}, seed: seed} }

func (d *detCached) Get(k H) (uint64, bool) { v, ok := d.m[k]; return v, ok }
func (d *detCached) Put(k H, v uint64)      { d.m[k] = v }
func (d *detCached) Delete(k H)             { delete(d.m, k) }
func (d *detCached) Length() int            { return len(d.m) }
func (d *detCached) ForEach(fn func(H, uint64) error) error {
	keys := make([]H, 0, len(d.m))
	for k := range d.m {
		keys = append(keys, k)
	}
	key := func(h H) uint64 {
		x := uint64(0)
		for i := 0; i < 8; i++ {
			x = x<<8 | uint64(h[i])
		}
		return mix64(x ^ d.seed)
	}
	sort.Slice(keys, func(i, j int) bool {
		a, b := key(keys[i]), key(keys[j])
		if a != b {
			return a < b
		}
		return lessH(keys[i], keys[j])
	})
	for _, k := range keys {
		v, ok := d.m[k]
		if !ok {
			continue
		}
		if err := fn(k, v); err != nil {
			return err
		}
	}
	return nil
}
