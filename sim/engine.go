package main

import (
	"encoding/json"
	"fmt"
	"os"
	"path/filepath"
	"time"
)

// An Engine turns a case seed into one simulated execution and a verdict.

type CaseResult struct {
	Digest     uint64      // digest of the event log (distinctness measure)
	NonTrivial bool
	Violations []Violation // violations of the property under check that are not known findings
	Stats      *Stats
	Case       interface{} // the explicit, replayable case (scenario)
	Panic      string      // harness trouble
}

type Engine interface {
	Name() string
	Property() string
	// Run generates and executes case #seed.
	Run(seed uint64, f *Findings) *CaseResult
	// Minimize shrinks a failing case; returns the replayable case.
	Minimize(c interface{}, class string, f *Findings, budget time.Duration) interface{}
	// Replay executes a stored case.
	Replay(raw json.RawMessage, f *Findings, trace bool) (*CaseResult, []string, error)
	// Describe: what ran real code and what ran a stub, and the rule for non-trivial.
	Describe() (rule string, real []string, stub []string)
}

type ReplayFile struct {
	Engine   string          `json:"engine"`
	Property string          `json:"property"`
	Class    string          `json:"class"`
	Seed     uint64          `json:"seed"`
	Tree     string          `json:"repo_tree,omitempty"`
	Expect   *Violation      `json:"expect,omitempty"`
	Case     json.RawMessage `json:"case"`
}

// ---------------------------------------------------------------------------
// world engine: network simulation profile

type worldEngine struct {
	prop    string
	profile *Profile
}

func (e *worldEngine) Name() string     { return "net-" + e.profile.Name }
func (e *worldEngine) Property() string { return e.prop }

func (e *worldEngine) opts(f *Findings) Options {
	return Options{Property: e.prop, Oracles: e.profile.OracleSet(), Findings: f}
}

func (e *worldEngine) Run(seed uint64, f *Findings) *CaseResult {
	sc := Generate(e.profile, seed)
	sc.Property = e.prop
	res := RunScenario(sc, e.opts(f))
	return e.result(sc, res)
}

func (e *worldEngine) result(sc *Scenario, res *Result) *CaseResult {
	cr := &CaseResult{Digest: res.LogSum, Violations: res.Violations, Stats: res.Stats, Case: sc, Panic: res.Panic}
	cr.NonTrivial = res.Stats.Applies >= 2 && e.oracleRan(res.Stats)
	return cr
}

func (e *worldEngine) oracleRan(s *Stats) bool {
	key := map[string][]string{
		"C01": {"roots"}, "C02": {"prove"}, "C05": {"roots"}, "C06": {"roots"}, "C07": {"light_update"}, "C08": {"light_undo"},
		"C09": {"partial"}, "C10": {"lookup"}, "C11": {"updatedata"}, "C13": {"roots"}, "C14": {"addproof", "proofsubset", "missing", "partial_fetch"},
		"C17": {"aliasing_args"},
	}[e.prop]
	for _, k := range key {
		if s.OracleChecks[k] > 0 {
			if e.prop == "C06" && s.Undos == 0 {
				return false
			}
			if e.prop == "C05" {
				n := 0
				for k, v := range s.Faults {
					if len(k) > 10 && k[:10] == "reencoded_" {
						n += v
					}
				}
				return n > 0
			}
			if e.prop == "C13" && s.Faults["restart"] == 0 {
				return false
			}
			return true
		}
	}
	return false
}

func (e *worldEngine) Minimize(c interface{}, class string, f *Findings, budget time.Duration) interface{} {
	return Minimize(c.(*Scenario), e.opts(f), class, budget)
}

func (e *worldEngine) Replay(raw json.RawMessage, f *Findings, trace bool) (*CaseResult, []string, error) {
	var sc Scenario
	if err := json.Unmarshal(raw, &sc); err != nil {
		return nil, nil, err
	}
	o := e.opts(f)
	o.Trace = trace
	res := RunScenario(&sc, o)
	return e.result(&sc, res), res.Log, nil
}

func (e *worldEngine) Describe() (string, []string, []string) {
	return "one case = one seeded scenario (node set, block tree with reorganisations, message latencies/drops/duplicates, crashes, restarts, node operations) executed by the discrete-event simulator; non-trivial = at least 2 block applications and the property's own oracle evaluated at least once (C06: at least one undo; C05: at least one re-encoded message accepted; C13: at least one restart); distinct = distinct digests of the complete event log",
		[]string{"Stump.Update", "Verify", "Pollard (Modify/Undo/Prove/Verify/GetHash/GetLeafPosition/WriteTo/RestorePollardFrom)", "MapPollard full and partial (Modify/Undo/Prove/Verify/VerifyPartialProof/Ingest/Prune/GetMissingPositions/GetHash/GetLeafPosition/Write/Read)", "Proof.Update/Proof.Undo", "AddProof/GetProofSubset/GetMissingPositions"},
		[]string{"block source and block store", "node glue (sync to tip, undo data persistence)", "network (latency, drop, duplicate, reorder)", "simulated disk", "honest peer serving hashes (from the reference model)", "relay re-encoding"}
}

// ---------------------------------------------------------------------------
// registry

func enginesFor(prop string) []Engine {
	var out []Engine
	add := func(profile string) {
		if p, ok := profiles[profile]; ok {
			out = append(out, &worldEngine{prop: prop, profile: p})
		}
	}
	switch prop {
	case "C01":
		add("c01")
	case "C02":
		add("c02")
	case "C05":
		add("c05")
	case "C06":
		add("c06")
	case "C07":
		add("c07")
	case "C08":
		add("c08")
	case "C09":
		add("c09")
	case "C10":
		add("c10")
	case "C11":
		add("c11")
	case "C13":
		add("c13")
	case "C14":
		add("c14")
	case "C17":
		add("c17")
	}
	out = append(out, extraEngines(prop)...)
	return out
}

func engineByName(prop, name string) Engine {
	for _, e := range enginesFor(prop) {
		if e.Name() == name {
			return e
		}
	}
	return nil
}

func verifDir() string {
	if d := os.Getenv("VERIF_DIR"); d != "" {
		return d
	}
	exe, err := os.Executable()
	if err == nil {
		d := filepath.Dir(filepath.Dir(exe))
		if _, err := os.Stat(filepath.Join(d, "properties.jsonl")); err == nil {
			return d
		}
	}
	return "/verif"
}

func saveReplay(e Engine, seed uint64, v Violation, c interface{}) (string, error) {
	raw, err := json.Marshal(c)
	if err != nil {
		return "", err
	}
	rf := ReplayFile{Engine: e.Name(), Property: e.Property(), Class: v.Class, Seed: seed, Tree: os.Getenv("VERIF_REPO_TREE"), Expect: &v, Case: raw}
	dir := filepath.Join(verifDir(), "replays")
	os.MkdirAll(dir, 0o755)
	path := filepath.Join(dir, fmt.Sprintf("%s-%s-%d.json", e.Property(), e.Name(), seed))
	b, _ := json.MarshalIndent(rf, "", " ")
	return path, os.WriteFile(path, b, 0o644)
}
