package main

import (
	"io"

	u "github.com/utreexo/utreexo"
)

// mapView is the node glue's handle on a map forest.  For an ordinary node it
// passes everything through.  For a node embedded at a big offset (big.go) the
// real instance is a partial MapPollard created with NewMapPollardFromRoots
// from opaque roots and a leaf count B of 31..62 bits; the view translates
// every position going in (small -> big) and coming out (big -> small), hides
// the opaque roots from storage inspection (after checking they are untouched)
// and strips them from GetRoots, so node glue and oracles keep working in the
// coordinates of the simulated forest.
type mapView struct {
	m      *u.MapPollard
	B      uint64
	opaque []H
	node   *Node // for up/down
}

var _ u.Utreexo = (*mapView)(nil)

func (v *mapView) big() bool      { return v.B != 0 }
func (v *mapView) nSmall() uint64 { return v.m.NumLeaves - v.B }
func (v *mapView) Rows() uint8    { return v.m.TotalRows }

func (v *mapView) upT(ts []uint64, nSmall uint64) []uint64 {
	if !v.big() {
		return ts
	}
	return v.node.upSlice(ts, nSmall)
}

func (v *mapView) downT(ts []uint64, nSmall uint64) []uint64 {
	if !v.big() || ts == nil {
		return ts
	}
	out := make([]uint64, len(ts))
	for i, t := range ts {
		out[i] = v.node.down(t, nSmall)
	}
	return out
}

func (v *mapView) upP(p u.Proof, nSmall uint64) u.Proof {
	if !v.big() {
		return p
	}
	return u.Proof{Targets: v.upT(p.Targets, nSmall), Proof: p.Proof}
}

func (v *mapView) Modify(adds []u.Leaf, dels []H, proof u.Proof) error {
	return v.m.Modify(adds, dels, v.upP(proof, v.nSmall()))
}

func (v *mapView) Prove(hs []H) (u.Proof, error) {
	p, err := v.m.Prove(hs)
	if v.big() {
		p.Targets = v.downT(p.Targets, v.nSmall())
	}
	return p, err
}

func (v *mapView) Verify(dels []H, proof u.Proof, remember bool) error {
	return v.m.Verify(dels, v.upP(proof, v.nSmall()), remember)
}

func (v *mapView) Undo(numAdds uint64, proof u.Proof, dels, prevRoots []H) error {
	if !v.big() {
		return v.m.Undo(numAdds, proof, dels, prevRoots)
	}
	pre := v.nSmall() - numAdds
	roots := append(append([]H(nil), v.opaque...), prevRoots...)
	return v.m.Undo(numAdds, v.upP(proof, pre), dels, roots)
}

func (v *mapView) GetRoots() []H {
	r := v.m.GetRoots()
	if !v.big() {
		return r
	}
	if len(r) < len(v.opaque) || !eqHashes(r[:len(v.opaque)], v.opaque) {
		return r // the untouched big trees changed: will not match the model
	}
	return r[len(v.opaque):]
}

func (v *mapView) GetHash(pos uint64) H {
	if !v.big() {
		return v.m.GetHash(pos)
	}
	return v.m.GetHash(v.node.up(pos, v.nSmall()))
}

func (v *mapView) GetLeafPosition(h H) (uint64, bool) {
	p, ok := v.m.GetLeafPosition(h)
	if v.big() && ok {
		p = v.node.down(p, v.nSmall())
	}
	return p, ok
}

func (v *mapView) GetNumLeaves() uint64 { return v.m.GetNumLeaves() - v.B }
func (v *mapView) GetTreeRows() uint8   { return v.m.GetTreeRows() }
func (v *mapView) String() string       { return v.m.String() }

func (v *mapView) VerifyPartialProof(targets []uint64, dels, proofHashes []H, remember bool) error {
	return v.m.VerifyPartialProof(v.upT(targets, v.nSmall()), dels, proofHashes, remember)
}

func (v *mapView) GetMissingPositions(targets []uint64) []uint64 {
	return v.downT(v.m.GetMissingPositions(v.upT(targets, v.nSmall())), v.nSmall())
}

func (v *mapView) Ingest(dels []H, proof u.Proof) error {
	return v.m.Ingest(dels, v.upP(proof, v.nSmall()))
}

func (v *mapView) Prune(hs []H) error { return v.m.Prune(hs) }

func (v *mapView) GetLeafHashPositions(hs []H) []uint64 {
	out := v.m.GetLeafHashPositions(hs)
	if v.big() {
		for i, p := range out {
			if p != 0 {
				out[i] = v.node.down(p, v.nSmall())
			} else if _, ok := v.m.GetLeafPosition(hs[i]); ok {
				out[i] = v.node.down(p, v.nSmall())
			}
		}
	}
	return out
}

func (v *mapView) Write(w io.Writer) (int, error) { return v.m.Write(w) }

// --- storage inspection in the numbering of the allocated height (TotalRows)

// tDown: position in TotalRows numbering of the big forest -> same numbering
// of the small forest; hidden=true for an untouched opaque root.
func (v *mapView) tDown(pos uint64, hash H) (small uint64, hidden bool) {
	if !v.big() {
		return pos, false
	}
	T := v.m.TotalRows
	ro, ok := roOfPos(pos, T)
	if !ok {
		return ^uint64(0) - pos%4096, false
	}
	if ro.R <= 20 && ro.O >= v.B>>ro.R {
		return RO{ro.R, ro.O - v.B>>ro.R}.Pos(T), false
	}
	// an opaque root?
	k := 0
	for i := 63; i >= 0; i-- {
		if v.B&(uint64(1)<<uint(i)) == 0 {
			continue
		}
		lo := v.B &^ (uint64(2)<<uint(i) - 1)
		if ro.R == uint8(i) && ro.O == lo>>uint(i) && k < len(v.opaque) && v.opaque[k] == hash {
			return 0, true
		}
		k++
	}
	return ^uint64(0) - pos%4096, false
}

func (v *mapView) tUp(pos uint64) uint64 {
	if !v.big() {
		return pos
	}
	T := v.m.TotalRows
	ro, ok := roOfPos(pos, T)
	if !ok || ro.R > 20 {
		return pos
	}
	return RO{ro.R, ro.O + v.B>>ro.R}.Pos(T)
}

func (v *mapView) NodesForEach(fn func(pos uint64, lf u.Leaf) error) error {
	return v.m.Nodes.ForEach(func(pos uint64, lf u.Leaf) error {
		p, hidden := v.tDown(pos, lf.Hash)
		if hidden {
			return nil
		}
		return fn(p, lf)
	})
}

func (v *mapView) NodeGet(pos uint64) (u.Leaf, bool) { return v.m.Nodes.Get(v.tUp(pos)) }

func (v *mapView) CachedForEach(fn func(h H, pos uint64) error) error {
	return v.m.CachedLeaves.ForEach(func(h H, pos uint64) error {
		p, _ := v.tDown(pos, h)
		return fn(h, p)
	})
}

func (v *mapView) CachedGet(h H) (uint64, bool) {
	p, ok := v.m.CachedLeaves.Get(h)
	if ok {
		p, _ = v.tDown(p, h)
	}
	return p, ok
}

func (v *mapView) CachedLen() int { return v.m.CachedLeaves.Length() }
