package main

import (
	"os"
	"sort"
)

// Scenario generator: seed + profile -> explicit scenario (workload, schedule, faults).
// Swarm style: node set, sizes, workload mix and enabled fault kinds vary per run.

type Profile struct {
	Name      string
	Property  string
	Oracles   []string
	Nodes     func(r *Rng) []NodeCfg
	MaxBlocks int
	MaxAdds   int
	// percentages (swarm: each is switched off entirely in some runs)
	PReorg, PSnapCrash, PCacheOps, PQuery int
	PForged                               int
	PrefixSharePct                        int // percent of runs whose leaf hashes share a 27-byte prefix
	LargePermille                         int // per-mille of blocks with 1025..4124 additions (verifier-only profiles)
	NodeHashPct                           int // percent of runs in which an added leaf may carry the hash of an internal node
	WidePct                               int // percent of runs whose first block adds 300..700 leaves (call arguments of more than 128 elements)
	HugePermille                          int // per-mille of runs with one block of 65536+ additions (16-bit counters)
	NetFaults                             bool
	QueryModes                            []string
}

func rowsChoice(r *Rng) int {
	switch r.Weighted(3, 3, 3, 1) {
	case 0:
		return -1 // library default (63)
	case 1:
		return 0 // grow on demand
	case 2:
		return 1 + r.Intn(8)
	}
	return 9 + r.Intn(54)
}

func mapNode(kind string, r *Rng) NodeCfg {
	return NodeCfg{Kind: kind, TotalRows: rowsChoice(r), DetMaps: r.Pct(50)}
}

var profiles = map[string]*Profile{}

func init() {
	reg := func(p *Profile) { profiles[p.Name] = p }
	allForests := func(r *Rng) []NodeCfg {
		ns := []NodeCfg{{Kind: "stump"}, {Kind: "pollard"},
			{Kind: "mapfull", TotalRows: -1, DetMaps: r.Bool()}, {Kind: "mapfull", TotalRows: 0, DetMaps: r.Bool()}, mapNode("mapfull", r),
			{Kind: "mappartial", TotalRows: -1, DetMaps: r.Bool()}, mapNode("mappartial", r),
			{Kind: "mappartial", TotalRows: -1, DetMaps: r.Bool(), Big: bigOffset(r)}}
		return ns
	}
	reg(&Profile{Name: "c01", WidePct: 2, NodeHashPct: 4, PForged: 10, Property: "C01", Oracles: []string{"roots"},
		Nodes: func(r *Rng) []NodeCfg {
			ns := allForests(r)
			ns = append(ns, NodeCfg{Kind: "stump", Big: bigOffset(r)})
			ns = append(ns, NodeCfg{Kind: "pollard", Relay: "rebatch", NoUndo: true},
				NodeCfg{Kind: "mapfull", TotalRows: rowsChoice(r), Relay: "rebatch", NoUndo: true})
			if r.Pct(50) {
				ns = append(ns, NodeCfg{Kind: "mappartial", TotalRows: -1, FromRoots: 1 + r.Intn(4)})
			} else {
				ns = append(ns, NodeCfg{Kind: "mappartial", TotalRows: -1, FromRoots: 1 + r.Intn(4), FullRoots: true})
			}
			return ns
		},
		MaxBlocks: 40, MaxAdds: 64, PReorg: 6, PSnapCrash: 0, NetFaults: true})
	reg(&Profile{Name: "c02", WidePct: 2, PrefixSharePct: 6, PForged: 15, Property: "C02", Oracles: []string{"roots", "prove"},
		Nodes: func(r *Rng) []NodeCfg {
			// ... and a forest that starts from bare roots at some block (partial, or full=true)
			return append(allForests(r), NodeCfg{Kind: "mappartial", TotalRows: -1, FromRoots: 1 + r.Intn(4), FullRoots: r.Pct(30)})
		},
		MaxBlocks: 30, MaxAdds: 48, PReorg: 8, PSnapCrash: 4, PCacheOps: 6, NetFaults: true})
	reg(&Profile{Name: "c05", NodeHashPct: 6, PForged: 15, Property: "C05", Oracles: []string{"roots"},
		Nodes: func(r *Rng) []NodeCfg {
			return []NodeCfg{{Kind: "stump", Relay: "reenc", NoUndo: true}, {Kind: "pollard", Relay: "reenc", NoUndo: true},
				{Kind: "mapfull", TotalRows: -1, Relay: "reenc", NoUndo: true, DetMaps: r.Bool()},
				{Kind: "mapfull", TotalRows: rowsChoice(r), Relay: "reenc", NoUndo: true},
				{Kind: "stump", Relay: "reenc", NoUndo: true},
				{Kind: "mappartial", TotalRows: -1, Relay: "reenc", NoUndo: true, DetMaps: r.Bool()},
				{Kind: "mappartial", TotalRows: []int{0, 0, 1 + r.Intn(8)}[r.Intn(3)], Relay: "reenc", NoUndo: true},
				{Kind: "mappartial", TotalRows: -1, Relay: "reenc", NoUndo: true, FromRoots: 1 + r.Intn(4), FullRoots: r.Pct(40)}}
		},
		MaxBlocks: 30, MaxAdds: 48, PReorg: 3, PCacheOps: 10, NetFaults: true})
	reg(&Profile{Name: "c06", WidePct: 3, PForged: 10, Property: "C06", Oracles: []string{"roots", "lookup", "prove", "provable-set", "partial"},
		Nodes: func(r *Rng) []NodeCfg {
			return []NodeCfg{{Kind: "pollard"}, {Kind: "mapfull", TotalRows: -1, DetMaps: r.Bool()}, {Kind: "mapfull", TotalRows: 0},
				mapNode("mapfull", r), {Kind: "mappartial", TotalRows: -1}, mapNode("mappartial", r), {Kind: "mappartial", TotalRows: -1, Big: bigOffset(r)},
				{Kind: "mappartial", TotalRows: -1, FromRoots: 1 + r.Intn(3), FullRoots: true}}
		},
		MaxBlocks: 30, MaxAdds: 40, PReorg: 30, PSnapCrash: 3, NetFaults: true})
	lightNodes := func(r *Rng) []NodeCfg {
		return []NodeCfg{{Kind: "light"}, {Kind: "light"}, {Kind: "light", Big: bigOffset(r)}, {Kind: "stump"}, {Kind: "light", Big: bigOffset(r)}}
	}
	reg(&Profile{Name: "c07", LargePermille: 4, PrefixSharePct: 15, PForged: 10, HugePermille: 2, Property: "C07", Oracles: []string{"roots", "light"},
		Nodes: lightNodes, MaxBlocks: 40, MaxAdds: 40, PReorg: 10, PSnapCrash: 3, NetFaults: true})
	reg(&Profile{Name: "c08", NodeHashPct: 3, LargePermille: 4, PrefixSharePct: 15, PForged: 10, HugePermille: 1, Property: "C08", Oracles: []string{"roots", "light"},
		Nodes: lightNodes, MaxBlocks: 40, MaxAdds: 40, PReorg: 35, PSnapCrash: 3, NetFaults: true})
	reg(&Profile{Name: "c11", LargePermille: 8, PrefixSharePct: 15, PForged: 10, HugePermille: 2, Property: "C11", Oracles: []string{"roots", "updatedata"},
		Nodes: func(r *Rng) []NodeCfg {
			return []NodeCfg{{Kind: "stump"}, {Kind: "stump", Big: bigOffset(r)}, {Kind: "stump", Big: bigOffset(r)}}
		},
		MaxBlocks: 40, MaxAdds: 64, PReorg: 10, NetFaults: true})
	reg(&Profile{Name: "c09", WidePct: 2, PForged: 25, Property: "C09", Oracles: []string{"roots", "partial"},
		Nodes: func(r *Rng) []NodeCfg {
			ns := []NodeCfg{{Kind: "mappartial", TotalRows: -1, DetMaps: r.Bool()}, {Kind: "mappartial", TotalRows: 0, DetMaps: r.Bool()}, mapNode("mappartial", r),
				{Kind: "mappartial", TotalRows: -1, DetMaps: r.Bool(), Big: bigOffset(r)}}
			if r.Pct(60) {
				ns = append(ns, NodeCfg{Kind: "mappartial", TotalRows: -1, FromRoots: 1 + r.Intn(5)})
			}
			return ns
		},
		MaxBlocks: 30, MaxAdds: 40, PReorg: 15, PCacheOps: 40, NetFaults: true})
	reg(&Profile{Name: "c10", WidePct: 2, PrefixSharePct: 6, PForged: 20, Property: "C10", Oracles: []string{"roots", "lookup"},
		Nodes: func(r *Rng) []NodeCfg {
			return []NodeCfg{{Kind: "pollard"}, {Kind: "mapfull", TotalRows: -1, DetMaps: r.Bool()}, {Kind: "mapfull", TotalRows: 0},
				mapNode("mapfull", r), {Kind: "mappartial", TotalRows: -1}, mapNode("mappartial", r), {Kind: "mappartial", TotalRows: -1, Big: bigOffset(r)}}
		},
		MaxBlocks: 25, MaxAdds: 32, PReorg: 15, PSnapCrash: 6, PCacheOps: 10, NetFaults: true})
	reg(&Profile{Name: "c13", PForged: 10, Property: "C13", Oracles: []string{"roots", "lookup", "prove", "partial"},
		Nodes: func(r *Rng) []NodeCfg {
			return []NodeCfg{{Kind: "pollard"}, {Kind: "mapfull", TotalRows: -1, DetMaps: true}, {Kind: "mapfull", TotalRows: 0, DetMaps: r.Bool()},
				mapNode("mapfull", r), {Kind: "mappartial", TotalRows: -1, DetMaps: true}, mapNode("mappartial", r), {Kind: "mappartial", TotalRows: -1, DetMaps: true, Big: bigOffset(r)},
				// a forest that started from bare roots (sparse: it never had most nodes), partial or full
				{Kind: "mappartial", TotalRows: -1, DetMaps: r.Bool(), FromRoots: 1 + r.Intn(3), FullRoots: r.Pct(40)}}
		},
		MaxBlocks: 25, MaxAdds: 32, PReorg: 12, PSnapCrash: 35, PCacheOps: 8, NetFaults: true})
	reg(&Profile{Name: "c14", NodeHashPct: 3, WidePct: 2, PForged: 15, Property: "C14", Oracles: []string{"roots", "c14proto"},
		Nodes: func(r *Rng) []NodeCfg {
			return []NodeCfg{{Kind: "mappartial", TotalRows: -1, DetMaps: r.Bool()}, {Kind: "mappartial", TotalRows: 0}, mapNode("mappartial", r), {Kind: "stump"},
				{Kind: "mappartial", TotalRows: -1, Big: bigOffset(r)}, {Kind: "stump", Big: bigOffset(r)},
				{Kind: "mappartial", TotalRows: -1, FromRoots: 1 + r.Intn(3), FullRoots: true}}
		},
		MaxBlocks: 25, MaxAdds: 32, PReorg: 8, PCacheOps: 25, PQuery: 60, NetFaults: true,
		QueryModes: []string{"addproof", "subset", "missing", "pmissing"}})
	reg(&Profile{Name: "c17", WidePct: 3, PForged: 15, Property: "C17", Oracles: []string{"roots", "prove", "lookup", "light", "updatedata", "partial", "aliasing", "c14proto"},
		Nodes: func(r *Rng) []NodeCfg {
			return []NodeCfg{{Kind: "stump"}, {Kind: "light"}, {Kind: "pollard"}, {Kind: "mapfull", TotalRows: -1}, mapNode("mapfull", r),
				{Kind: "mappartial", TotalRows: -1}, mapNode("mappartial", r), {Kind: "stump", Relay: "reenc", NoUndo: true},
				{Kind: "mappartial", TotalRows: -1, Big: bigOffset(r)}, {Kind: "light", Big: bigOffset(r)}}
		},
		MaxBlocks: 20, MaxAdds: 24, PReorg: 15, PSnapCrash: 4, PCacheOps: 15, PQuery: 30, NetFaults: true,
		QueryModes: []string{"addproof", "subset", "pmissing"}})
}

func (p *Profile) OracleSet() map[string]bool {
	m := map[string]bool{}
	for _, o := range p.Oracles {
		m[o] = true
	}
	return m
}

// genChain: the generator's own view of the block tree (model only).
type genBlock struct {
	parent, height int
	post           *State
}

func Generate(p *Profile, seed uint64) *Scenario {
	sw := SubRng(seed, "swarm")
	g := SubRng(seed, "gen")
	net := SubRng(seed, "net")
	sc := &Scenario{Property: p.Property, Profile: p.Name, Seed: seed}
	sc.Nodes = p.Nodes(sw)
	nn := len(sc.Nodes)

	if p.HugePermille > 0 && os.Getenv("VERIF_HUGE") == "1" && sw.Intn(1000) < p.HugePermille {
		// a short history around one block with 65536+ additions
		picks := func(n int) []int {
			out := make([]int, n)
			for i := range out {
				out[i] = g.Intn(1 << 12)
			}
			sort.Sort(sort.Reverse(sort.IntSlice(out)))
			return out
		}
		if len(sc.Nodes) > 2 {
			// keep such runs small: Stump.add is quadratic in the number of additions
			// while an empty root exists (about 12 s per verifier for 65536 additions)
			sc.Nodes = sc.Nodes[1:3]
		}
		sc.Steps = append(sc.Steps, Step{Op: "block", Adds: 1 + g.Intn(40), Seed: g.Next()}, Step{Op: "tick", Dt: 3})
		if g.Bool() {
			sc.Steps = append(sc.Steps, Step{Op: "block", Dels: picks(1 + g.Intn(12)), Adds: g.Intn(6), Seed: g.Next()}, Step{Op: "tick", Dt: 3})
		}
		nd := g.Intn(20)
		if g.Pct(25) {
			nd = 64 // every live leaf: all roots empty, the additions write over them
			// (the expensive variant: one node only, alternately the plain and a big-offset one)
			if len(sc.Nodes) > 1 {
				k := g.Intn(len(sc.Nodes))
				sc.Nodes = sc.Nodes[k : k+1]
			}
		}
		sc.Steps = append(sc.Steps, Step{Op: "block", Dels: picks(nd), Adds: 65536 + g.Intn(40) - 3*g.Intn(2), Seed: g.Next()}, Step{Op: "tick", Dt: 3})
		if g.Bool() {
			sc.Steps = append(sc.Steps, Step{Op: "block", Dels: picks(1 + g.Intn(30)), Adds: g.Intn(10), Seed: g.Next()}, Step{Op: "tick", Dt: 3})
		}
		if g.Pct(50) {
			// a block that deletes every other leaf of a long stretch: thousands of
			// targets, more than ten thousand computed parents in one proof
			k := 5000 + g.Intn(3000)
			ev := make([]int, 0, k)
			for i := 2 * (k - 1); i >= 0; i -= 2 {
				ev = append(ev, i)
			}
			sc.Steps = append(sc.Steps, Step{Op: "block", Dels: ev, Adds: g.Intn(4), Seed: g.Next()}, Step{Op: "tick", Dt: 3})
		}
		if g.Pct(40) {
			sc.Steps = append(sc.Steps, Step{Op: "tip", Pick: 1 + g.Intn(2)}, Step{Op: "tick", Dt: 3})
		}
		return sc
	}
	// swarm configuration of this run
	maxBlocks := 2 + sw.Intn(p.MaxBlocks-1)
	if sw.Pct(60) {
		maxBlocks = 2 + sw.Intn(10) // most runs are short
	}
	addScale := []int{2, 4, 8, 16, p.MaxAdds}[sw.Intn(5)]
	pReorg, pSnap, pCache, pQuery := p.PReorg, p.PSnapCrash, p.PCacheOps, p.PQuery
	if sw.Pct(25) {
		pReorg = 0
	}
	if sw.Pct(30) {
		pSnap = 0
	}
	if sw.Pct(20) {
		pCache = 0
	}
	if sw.Pct(12) {
		sc.OddHashes = true
	}
	if sw.Pct(20) {
		// leaf hashes that come back: an added leaf may repeat the hash of a leaf
		// deleted by the same block or earlier (never of a live one)
		sc.ReAdd = true
	}
	if p.PrefixSharePct > 0 && sw.Pct(p.PrefixSharePct) {
		sc.PrefixShare = true
	}
	if p.NodeHashPct > 0 && sw.Pct(p.NodeHashPct) || os.Getenv("VERIF_EXP_NHL") != "" {
		// an added leaf may carry the hash of an internal node (only in profiles whose
		// oracles the library satisfies with such leaves: roots, block application,
		// the proof helpers, cached-proof undo; DESIGN 7.1).  VERIF_EXP_NHL forces it
		// for experiments in other profiles.
		sc.NodeHashLeaf = true
		hasForest := false
		for _, n := range sc.Nodes {
			hasForest = hasForest || (n.Kind != "stump" && n.Kind != "light")
		}
		if hasForest && os.Getenv("VERIF_EXP_NHL") != "2" {
			// forests holding such a leaf are only taken forward: after Undo they are
			// known to go wrong (DESIGN 7.1), so these runs have no reorganisation
			pReorg = 0
		}
	}
	if p.PForged > 0 && sw.Pct(60) {
		sc.Forged = p.PForged
	}
	faults := p.NetFaults && sw.Pct(70)
	dropP, dupP, slowP := 0, 0, 0
	if faults {
		dropP, dupP, slowP = sw.Intn(12), sw.Intn(10), sw.Intn(15)
	}
	delBias := sw.Intn(4) // 0 mixed, 1 heavy deletes, 2 light deletes, 3 tree-oriented
	wide := p.WidePct > 0 && sw.Pct(p.WidePct)
	if wide && maxBlocks > 8 {
		maxBlocks = 3 + sw.Intn(6)
	}
	if wide && pReorg > 0 && pReorg < 40 {
		pReorg = 40 // few blocks: make the reorganisation likely to follow a big block
	}

	chain := []genBlock{{parent: -1, height: 0, post: NewState()}}
	tip := 0
	ctr := 0
	lat := func() []int {
		out := make([]int, nn)
		for i := range out {
			l := 1 + net.Intn(4)
			if faults {
				switch {
				case net.Pct(dropP):
					l = 0
				case net.Pct(dupP):
					l = -l
				case net.Pct(slowP):
					l = 15 + net.Intn(20)
				}
			}
			out[i] = l
		}
		return out
	}
	nodesOf := func(pred func(NodeCfg) bool) []int {
		var out []int
		for i, n := range sc.Nodes {
			if pred(n) {
				out = append(out, i)
			}
		}
		return out
	}
	partials := nodesOf(func(n NodeCfg) bool { return n.Kind == "mappartial" })
	mapfulls := nodesOf(func(n NodeCfg) bool { return n.Kind == "mapfull" && n.Relay != "rebatch" })
	forests := nodesOf(func(n NodeCfg) bool { return n.Kind != "stump" && n.Kind != "light" && n.Relay == "" })
	anyNodes := nodesOf(func(n NodeCfg) bool { return true })
	lights := nodesOf(func(n NodeCfg) bool { return n.Kind == "light" })
	crashed := map[int]bool{}

	blocksMade := 0
	justReorged, lastDels, lastAdds := false, 0, -1
	for blocksMade < maxBlocks && len(sc.Steps) < 400 {
		st := chain[tip].post
		switch {
		case len(chain) > 1 && g.Pct(pReorg):
			// reorganisation: move the tip back (depth biased to 1-3, sometimes genesis, sometimes any block)
			var target int
			switch g.Weighted(6, 1, 2) {
			case 0:
				d := 1 + g.Intn(3)
				target = tip
				for i := 0; i < d && chain[target].parent >= 0; i++ {
					target = chain[target].parent
				}
			case 1:
				target = 0
			default:
				target = g.Intn(len(chain))
			}
			if target != tip {
				tip = target
				justReorged = true
				sc.Steps = append(sc.Steps, Step{Op: "tip", Pick: target, Lat: lat()})
				sc.Steps = append(sc.Steps, Step{Op: "tick", Dt: 1 + net.Intn(6)})
			}
			continue
		case faults && len(chain) > 1 && net.Pct(3):
			// partition: one node hears nothing for a while, then heals and has to
			// catch up across whatever happened meanwhile (blocks, reorganisations)
			sc.Steps = append(sc.Steps, Step{Op: "part", Node: anyNodes[net.Intn(len(anyNodes))], Arg: 5 + net.Intn(40)})
			continue
		case len(forests) > 0 && g.Pct(pSnap):
			node := forests[g.Intn(len(forests))]
			switch {
			case crashed[node]:
				sc.Steps = append(sc.Steps, Step{Op: "restart", Node: node, Arg: g.Intn(6)})
				crashed[node] = false
			case g.Pct(55):
				arg := -1
				if g.Pct(30) {
					arg = g.Intn(1 << 16)
					crashed[node] = true
				}
				sc.Steps = append(sc.Steps, Step{Op: "snap", Node: node, Arg: arg})
			default:
				sc.Steps = append(sc.Steps, Step{Op: "crash", Node: node})
				crashed[node] = true
			}
			continue
		case len(partials) > 0 && g.Pct(pCache):
			node := partials[g.Intn(len(partials))]
			np := 1 + g.Intn(6)
			if g.Pct(15) {
				np = 40
			}
			picks := make([]int, np)
			for i := range picks {
				picks[i] = g.Intn(1 << 12)
			}
			if g.Pct(45) {
				if len(mapfulls) > 0 && g.Pct(20) {
					// a full forest must treat Prune as a no-op
					node = mapfulls[g.Intn(len(mapfulls))]
				}
				sc.Steps = append(sc.Steps, Step{Op: "prune", Node: node, Picks: picks, Arg: g.Intn(3) / 2})
			} else {
				sc.Steps = append(sc.Steps, Step{Op: "ingest", Node: node, Picks: picks, Arg: g.Intn(3)})
			}
			continue
		case (p.Name == "c17" && g.Pct(8) || (p.Name == "c07" || p.Name == "c08") && g.Pct(5)) && len(lights) > 0:
			sc.Steps = append(sc.Steps, Step{Op: "reimport", Node: lights[g.Intn(len(lights))], Seed: g.Next()})
			continue
		case len(p.QueryModes) > 0 && g.Pct(pQuery) && st.NumLive() > 0:
			np := 1 + g.Intn(8)
			picks := make([]int, np)
			for i := range picks {
				picks[i] = g.Intn(1 << 12)
			}
			sc.Steps = append(sc.Steps, Step{Op: "query", Node: anyNodes[g.Intn(len(anyNodes))], Picks: picks,
				Mode: p.QueryModes[g.Intn(len(p.QueryModes))], Seed: g.Next()})
			continue
		}
		// a block
		dels := genDels(g, st, delBias)
		if wide && blocksMade >= 1 && g.Pct(40) {
			// a wide forest: delete everything under one of the highest nodes (half or
			// a quarter of the biggest trees), so that the other half moves as a whole —
			// and moves back as a whole when the block is undone
			dels = genDelsBigSubtree(g, st)
		}
		adds := genAdds(g, st, addScale, p.MaxAdds, p.LargePermille)
		if wide && blocksMade == 0 {
			// a wide forest from the start: whole-tree and delete-all blocks, proofs and
			// queries then carry hundreds of targets
			dels, adds = nil, 300+g.Intn(400)
			if g.Pct(35) {
				adds = 1024 + g.Intn(300) // a tree of 1024 leaves: subtrees of row 9 move as a whole
			}
		}
		if justReorged && lastAdds >= 0 && g.Pct(50) {
			// twin block: right after a branch switch, a block with the same number of
			// deletions and additions as the last block of the abandoned branch, but
			// other leaves (same leaf count and deletion count, different forest)
			adds = lastAdds
			if nl := st.NumLive(); nl > 0 && lastDels > 0 {
				seen := map[int]bool{}
				dels = dels[:0]
				for tries := 0; len(dels) < lastDels && len(dels) < nl && tries < 4*lastDels+8; tries++ {
					pk := g.Intn(nl)
					if !seen[pk] {
						seen[pk] = true
						dels = append(dels, pk)
					}
				}
				sort.Sort(sort.Reverse(sort.IntSlice(dels)))
				// picks are applied without replacement: keep each below the shrinking live count
				for i := range dels {
					if dels[i] >= nl-i {
						dels[i] = nl - i - 1
					}
				}
			} else if lastDels == 0 {
				dels = nil
			}
		}
		justReorged = false
		lastDels, lastAdds = len(dels), adds
		ctr++
		step := Step{Op: "block", Dels: dels, Adds: adds, Seed: g.Next(), Lat: lat()}
		sc.Steps = append(sc.Steps, step)
		// mirror on the generator's model
		live := st.Live()
		var dh []H
		for _, pk := range dels {
			if len(live) == 0 {
				break
			}
			i := pk % len(live)
			dh = append(dh, live[i])
			live = append(live[:i:i], live[i+1:]...)
		}
		mid := st.WithDels(dh)
		fake := make([]H, adds)
		for i := range fake {
			fake[i][0], fake[i][1], fake[i][2], fake[i][3] = byte(ctr), byte(ctr>>8), byte(i), byte(i>>8)
			fake[i][31] = 0x99
		}
		chain = append(chain, genBlock{parent: tip, height: chain[tip].height + 1, post: mid.WithAdds(fake)})
		tip = len(chain) - 1
		blocksMade++
		sc.Steps = append(sc.Steps, Step{Op: "tick", Dt: 1 + net.Intn(6)})
		if faults && net.Pct(20) {
			sc.Steps = append(sc.Steps, Step{Op: "hb", Lat: lat()})
		}
	}
	return sc
}

// genDels: deletion picks (indexes into the live list in slot order, applied
// without replacement, so they are emitted in descending order).
func genDels(g *Rng, st *State, bias int) []int {
	live := st.Live()
	if len(live) == 0 {
		return nil
	}
	L := st.Layout()
	idxOf := map[H]int{}
	for i, h := range live {
		idxOf[h] = i
	}
	chosen := map[int]bool{}
	w := [][]int{
		{10, 8, 12, 15, 35, 10, 10}, // mixed
		{3, 20, 20, 20, 30, 2, 5},   // heavy
		{25, 1, 5, 10, 30, 25, 4},   // light
		{5, 10, 30, 30, 10, 5, 10},  // tree oriented
	}[bias]
	switch g.Weighted(w...) {
	case 0: // none
	case 1: // all
		for i := range live {
			chosen[i] = true
		}
	case 2: // one or two whole trees
		trees := treesOf(st.N)
		for k := 0; k < 1+g.Intn(2); k++ {
			t := trees[g.Intn(len(trees))]
			for s := t.lo; s < t.lo+(uint64(1)<<t.h); s++ {
				if st.Alive[s] {
					chosen[idxOf[st.Leaves[s]]] = true
				}
			}
		}
	case 3: // whole subtrees under random internal nodes
		var internal []RO
		for ro := range L.Nodes {
			if !L.IsLeaf[ro] {
				internal = append(internal, ro)
			}
		}
		sortRO(internal)
		for k := 0; k < 1+g.Intn(3) && len(internal) > 0; k++ {
			ro := internal[g.Intn(len(internal))]
			lg := L.Log[ro]
			for s := lg.lo; s < lg.lo+(uint64(1)<<lg.h); s++ {
				if st.Alive[s] {
					chosen[idxOf[st.Leaves[s]]] = true
				}
			}
		}
	case 4: // random subset with some density
		d := []int{5, 20, 50, 80}[g.Intn(4)]
		for i := range live {
			if g.Pct(d) {
				chosen[i] = true
			}
		}
	case 5: // a single leaf
		chosen[g.Intn(len(live))] = true
	case 6: // leaves that are tree roots by themselves, plus the last leaves
		for _, r := range L.RootsAt {
			if L.IsLeaf[r] {
				chosen[idxOf[L.Nodes[r]]] = true
			}
		}
		for k := 0; k < g.Intn(3); k++ {
			chosen[len(live)-1-g.Intn(min(len(live), 4))] = true
		}
	}
	out := make([]int, 0, len(chosen))
	for i := range chosen {
		out = append(out, i)
	}
	sort.Sort(sort.Reverse(sort.IntSlice(out)))
	if len(out) > 200 {
		out = out[:200]
	}
	return out
}

// genDelsBigSubtree: all live leaves under one internal node of the top three
// rows of the forest (no cap: such a block names hundreds of targets).
func genDelsBigSubtree(g *Rng, st *State) []int {
	live := st.Live()
	L := st.Layout()
	idxOf := map[H]int{}
	for i, h := range live {
		idxOf[h] = i
	}
	top := uint8(0)
	for ro := range L.Nodes {
		if ro.R > top {
			top = ro.R
		}
	}
	var cand []RO
	for ro := range L.Nodes {
		if !L.IsLeaf[ro] && ro.R+3 > top && ro.R >= 1 {
			cand = append(cand, ro)
		}
	}
	if len(cand) == 0 {
		return nil
	}
	sortRO(cand)
	lg := L.Log[cand[g.Intn(len(cand))]]
	var out []int
	for s := lg.lo; s < lg.lo+(uint64(1)<<lg.h); s++ {
		if st.Alive[s] {
			out = append(out, idxOf[st.Leaves[s]])
		}
	}
	sort.Sort(sort.Reverse(sort.IntSlice(out)))
	return out
}

func genAdds(g *Rng, st *State, scale, max int, largePermille int) int {
	if largePermille > 0 && g.Intn(1000) < largePermille {
		// a large block: more than 1024 additions (bounds and look-aheads in the
		// low thousands), far fewer than the thorough tier's 65536
		return 1025 + g.Intn(3100)
	}
	n := 0
	switch g.Weighted(10, 15, 40, 20, 10, 5) {
	case 0:
		n = 0
	case 1:
		n = 1
	case 2:
		n = 1 + g.Intn(scale)
	case 3: // cross the next power of two
		np := uint64(1)
		for np <= st.N {
			np <<= 1
		}
		n = int(np-st.N) + g.Intn(3)
	case 4: // make the leaf count all-ones / a power of two exactly
		np := uint64(1)
		for np < st.N+1 {
			np <<= 1
		}
		n = int(np - st.N)
		if g.Bool() && n > 1 {
			n--
		}
	case 5:
		n = max
	}
	if n > max {
		n = 1 + g.Intn(max)
	}
	return n
}

func min(a, b int) int {
	if a < b {
		return a
	}
	return b
}
