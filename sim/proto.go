package main

import (
	"fmt"
	"sort"

	u "github.com/utreexo/utreexo"
)

// C14: proof combination, restriction and completion — exercised as the
// fetch / merge / serve protocol between nodes.  Peers' replies are served
// from the model (honest peer stub); the helpers under test are real.

// partialFetchVerify: a partial node that needs `targets` asks for exactly the
// positions it reports missing and completes with VerifyPartialProof.
func (w *World) partialFetchVerify(n *Node, st *State, hashes []H, targets []uint64, remember bool) bool {
	L := st.Layout()
	T := n.mp.Rows()
	w.count("partial_fetch")
	var missing []uint64
	g := w.fp.begin("MapPollard.GetMissingPositions", targets)
	err, _ := guard(func() error { missing = n.mp.GetMissingPositions(targets); return nil })
	g.end()
	if err != nil {
		w.violate(n, "C14", "partial-missing-panic", err.Error())
		return false
	}
	// expected: canonical proof positions that the node does not store
	var places []RO
	for _, h := range hashes {
		places = append(places, L.LeafAt[h])
	}
	var want []uint64
	for _, p := range L.ProofPlaces(places) {
		if _, ok := n.mp.NodeGet(p.Pos(T)); !ok {
			want = append(want, p.Pos(L.R))
		}
	}
	if !eqU64(missing, want) && !(len(missing) == 0 && len(want) == 0) {
		w.violate(n, "C14", "partial-missing", fmt.Sprintf("GetMissingPositions(%v) = %v, expected %v (N=%d, TotalRows=%d)", targets, missing, want, st.N, T))
		missing = want
	}
	// the peer's reply; fault: a stale reply computed one block earlier
	fetched := make([]H, 0, len(missing)+2)
	for _, p := range missing {
		h, _ := L.HashAt(p, L.R)
		fetched = append(fetched, h)
	}
	fetched = padH(fetched)
	g = w.fp.begin("VerifyPartialProof", targets, hashes, fetched)
	err, _ = guard(func() error { return n.mp.VerifyPartialProof(targets, hashes, fetched, remember) })
	g.end()
	if err != nil {
		w.violate(n, "C14", "partial-verify-reject", fmt.Sprintf("VerifyPartialProof rejected true hashes at the reported missing positions %v: %v", missing, err))
		if remember {
			// fall back to the plain path so the run can continue
			pr, _ := L.CanonProof(hashes)
			e2, _ := guard(func() error { return n.mp.Verify(hashes, pr, true) })
			if e2 != nil {
				n.tainted = true
				return false
			}
		}
		return true
	}
	if len(missing) > 0 {
		w.stats.Reach["partial_fetch_nonempty"]++
	}
	return true
}

// opQuery: protocol traffic at a node: s.Mode in addproof | subset | missing | pmissing
func (w *World) opQuery(n *Node, s *Step) {
	if n.dead || n.offline {
		return
	}
	st := w.blocks[n.at].Post
	if st.NumLive() == 0 {
		return
	}
	w.stats.Events++
	r := SubRng(s.Seed^uint64(n.idx), "query")
	live := st.Live()
	if w.opt.Property == "C14" && s.Mode != "pmissing" && r.Pct(12) {
		// the stand-alone helpers work on proofs alone, so they can be asked about a
		// state no forest of this run is in: the same slots, but one live leaf carries
		// the bytes of an internal node (or root) that is not above it.  Positions,
		// canonical proofs and roots of that state come from the model as usual.
		if st2 := coincident(st, r, false); st2 != nil {
			w.stats.Reach["c14_leaf_equals_node_hash"]++
			st, live = st2, st2.Live()
		}
	}
	A := w.biasedSet(r, st, live, s.Picks)
	B := w.biasedSet(r, st, live, rotate(s.Picks, 3))
	if w.opt.Property == "C14" && len(live) <= 5 && len(live) >= 2 && r.Pct(25) && s.Mode != "pmissing" {
		// small state: every pair of non-empty target sets (AddProof, missing
		// positions) resp. every target set with seeded restrictions (subset)
		w.stats.Reach["c14_all_pairs_of_state"]++
		subsets := func() [][]H {
			var out [][]H
			for mask := 1; mask < 1<<uint(len(live)); mask++ {
				var sub []H
				for i, h := range live {
					if mask&(1<<uint(i)) != 0 {
						sub = append(sub, h)
					}
				}
				r.Shuffle(len(sub), func(i, j int) { sub[i], sub[j] = sub[j], sub[i] })
				out = append(out, sub)
			}
			return out
		}()
		for _, a := range subsets {
			if w.stop {
				return
			}
			if s.Mode == "subset" {
				w.checkProofSubset(n, st, a, r)
				continue
			}
			for _, b := range subsets {
				if w.stop {
					return
				}
				if s.Mode == "addproof" {
					w.checkAddProof(n, st, a, b)
				} else {
					w.checkMissing(n, st, a, b)
				}
			}
		}
		return
	}
	switch s.Mode {
	case "addproof":
		w.checkAddProof(n, st, A, B)
	case "subset":
		w.checkProofSubset(n, st, A, r)
	case "missing":
		w.checkMissing(n, st, A, B)
	case "pmissing":
		if n.isPartial() && w.opt.Property == "C14" && r.Pct(25) {
			w.partialCoincident(n, st, r)
			return
		}
		if n.isPartial() && !n.tainted {
			hs := padH(A)
			pr, _ := st.Layout().CanonProof(hs)
			w.partialFetchVerify(n, st, hs, padU(pr.Targets), false)
		}
	}
}

func rotate(a []int, k int) []int {
	out := make([]int, len(a))
	for i := range a {
		out[i] = a[(i+k)%len(a)] + k
	}
	return out
}

// biasedSet: picks give the leaves; seeded order.
func (w *World) biasedSet(r *Rng, st *State, live []H, picks []int) []H {
	hs := w.pickHashes(live, picks)
	L := st.Layout()
	if len(live) > 200 && r.Pct(35) {
		// a wide forest: a request for 130..260 leaves in no particular order
		k := 130 + r.Intn(131)
		if k > len(live) {
			k = len(live)
		}
		idx := make([]int, len(live))
		for i := range idx {
			idx[i] = i
		}
		r.Shuffle(len(idx), func(i, j int) { idx[i], idx[j] = idx[j], idx[i] })
		hs = hs[:0]
		for _, i := range idx[:k] {
			hs = append(hs, live[i])
		}
		w.stats.Reach["query_with_more_than_128_targets"]++
		return hs
	}
	// bias: every live leaf of a whole tree / of the subtree under an internal
	// node (such a set has few or no proof hashes of its own)
	if m := r.Intn(10); m < 3 && len(hs) > 0 {
		ro := L.LeafAt[hs[0]]
		up := 1 + r.Intn(3)
		if m == 0 {
			up = 64
		}
		for i := 0; i < up && !L.IsRoot(ro); i++ {
			ro = ro.Parent()
		}
		lg := L.Log[ro]
		hs = hs[:0]
		for sl := lg.lo; sl < lg.lo+(uint64(1)<<lg.h) && sl < uint64(len(st.Leaves)); sl++ {
			if st.Alive[sl] {
				hs = append(hs, st.Leaves[sl])
			}
		}
		if len(hs) > 40 {
			hs = hs[:40]
		}
	}
	// bias: pull in siblings / cousins so that sets nest under common parents
	if r.Pct(40) {
		for _, h := range append([]H(nil), hs...) {
			ro := L.LeafAt[h]
			if sh, ok := L.Nodes[ro.Sib()]; ok && L.IsLeaf[ro.Sib()] && r.Pct(60) {
				hs = append(hs, sh)
			}
		}
		hs = dedupH(hs)
	}
	r.Shuffle(len(hs), func(i, j int) { hs[i], hs[j] = hs[j], hs[i] })
	return hs
}

func (w *World) checkAddProof(n *Node, st *State, A, B []H) {
	L := st.Layout()
	w.count("addproof")
	A, B = padH(A), padH(B)
	pa, _ := L.CanonProof(A)
	pb, _ := L.CanonProof(B)
	pa.Targets, pa.Proof, pb.Targets, pb.Proof = padU(pa.Targets), padH(pa.Proof), padU(pb.Targets), padH(pb.Proof)
	if eqHashes(A, B) {
		// the same proof on both sides: hand over the very same slices (a caller that
		// merges a proof with itself), so the two arguments alias each other
		B, pb = A, pa
		w.stats.Reach["addproof_arguments_alias"]++
	}
	var hs []H
	var pc u.Proof
	g := w.fp.begin("AddProof", A, B, pa.Targets, pa.Proof, pb.Targets, pb.Proof)
	// (for a node embedded at a big offset the helpers are called with the big
	// leaf count and translated targets; answers are translated back)
	paB, pbB := n.upProof(pa, st.N), n.upProof(pb, st.N)
	err, _ := guard(func() error { hs, pc = u.AddProof(paB, pbB, A, B, n.cfg.Big+st.N); return nil })
	g.end()
	pcBig := pc
	pc.Targets = n.downTargets(pc.Targets, st.N)
	if err != nil {
		w.violate(n, "C14", "addproof-panic", fmt.Sprintf("AddProof(|A|=%d,|B|=%d,N=%d): %v", len(A), len(B), st.N, err))
		return
	}
	w.fp.track("addproof-result", hs, pc.Targets, pc.Proof)
	un := map[H]bool{}
	for _, h := range A {
		un[h] = true
	}
	for _, h := range B {
		un[h] = true
	}
	if len(un) > len(A) && len(un) > len(B) && len(un) < len(A)+len(B) {
		w.stats.Reach["addproof_overlapping"]++
	}
	if len(hs) != len(un) || len(pc.Targets) != len(un) {
		w.violate(n, "C14", "addproof-size", fmt.Sprintf("AddProof returned %d hashes / %d targets for a union of %d leaves", len(hs), len(pc.Targets), len(un)))
		return
	}
	seen := map[H]bool{}
	for i, h := range hs {
		ro, ok := L.LeafAt[h]
		if !un[h] || seen[h] || !ok || ro.Pos(L.R) != pc.Targets[i] {
			w.violate(n, "C14", "addproof-pairing", fmt.Sprintf("AddProof result pairs hash %s with target %d wrongly (or hash not in the union)", short(h), pc.Targets[i]))
			return
		}
		seen[h] = true
	}
	want, _ := L.CanonProof(hs)
	if !eqHashes(pc.Proof, want.Proof) {
		w.violate(n, "C14", "addproof-proof", fmt.Sprintf("AddProof proof has %d hashes, canonical proof of the union has %d (or contents differ); N=%d A=%v B=%v", len(pc.Proof), len(want.Proof), st.N, pa.Targets, pb.Targets))
		return
	}
	stump := n.bigStump(st)
	if err, _ := guard(func() error { _, e := u.Verify(stump, hs, pcBig); return e }); err != nil {
		w.violate(n, "C14", "addproof-verify", "combined proof does not verify: "+err.Error())
	}
}

func (w *World) checkProofSubset(n *Node, st *State, A []H, r *Rng) {
	L := st.Layout()
	if len(A) == 0 {
		return
	}
	w.count("proofsubset")
	A = padH(A)
	pa, _ := L.CanonProof(A)
	if r.Pct(40) {
		// the same proof with targets (and hashes) sorted by position
		idx := make([]int, len(A))
		for i := range idx {
			idx[i] = i
		}
		sort.Slice(idx, func(i, j int) bool { return pa.Targets[idx[i]] < pa.Targets[idx[j]] })
		a2, t2 := make([]H, len(A)), make([]uint64, len(A))
		for i, k := range idx {
			a2[i], t2[i] = A[k], pa.Targets[k]
		}
		A, pa.Targets = padH(a2), t2
	} else {
		w.stats.Reach["subset_of_unsorted_proof"]++
	}
	pa.Targets, pa.Proof = padU(pa.Targets), padH(pa.Proof)
	// wants: subset in seeded order
	var W []H
	for _, h := range A {
		if r.Pct(50) {
			W = append(W, h)
		}
	}
	r.Shuffle(len(W), func(i, j int) { W[i], W[j] = W[j], W[i] })
	wants := make([]uint64, len(W), len(W)+2)
	for i, h := range W {
		wants[i] = L.LeafAt[h].Pos(L.R)
	}
	var hs []H
	var ps u.Proof
	g := w.fp.begin("GetProofSubset", A, pa.Targets, pa.Proof, wants)
	paB, wantsB := n.upProof(pa, st.N), n.upSlice(wants, st.N)
	err, _ := guard(func() error { var e error; hs, ps, e = u.GetProofSubset(paB, A, wantsB, n.cfg.Big+st.N); return e })
	g.end()
	ps.Targets = n.downTargets(ps.Targets, st.N)
	if err != nil {
		w.violate(n, "C14", "subset-err", fmt.Sprintf("GetProofSubset failed for covered wants %v of %v: %v", wants, pa.Targets, err))
		return
	}
	w.fp.track("subset-result", hs, ps.Targets, ps.Proof)
	want, _ := L.CanonProof(W)
	if !eqHashes(hs, W) {
		w.violate(n, "C14", "subset-hashes", fmt.Sprintf("GetProofSubset hashes are not the wanted leaves in the wanted order (proof targets %v, wants %v, N=%d)", pa.Targets, wants, st.N))
		return
	}
	if !eqU64(ps.Targets, wants) {
		w.violate(n, "C14", "subset-targets", fmt.Sprintf("GetProofSubset targets %v, wants %v", ps.Targets, wants))
		return
	}
	if !eqHashes(ps.Proof, want.Proof) {
		w.violate(n, "C14", "subset-proof", fmt.Sprintf("GetProofSubset proof is not canonical for the wants (got %d hashes, canonical %d); proof targets %v wants %v N=%d", len(ps.Proof), len(want.Proof), pa.Targets, wants, st.N))
		return
	}
	// a want that is not covered must produce an error
	inA := map[H]bool{}
	for _, h := range A {
		inA[h] = true
	}
	for _, h := range st.Live() {
		if !inA[h] {
			w2 := append(append([]uint64(nil), wants...), L.LeafAt[h].Pos(L.R))
			w2B := n.upSlice(w2, st.N)
			err, panicked := guard(func() error { _, _, e := u.GetProofSubset(paB, A, w2B, n.cfg.Big+st.N); return e })
			if err == nil || panicked {
				w.violate(n, "C14", "subset-uncovered", fmt.Sprintf("GetProofSubset accepted (or panicked on) a want %d that the proof does not cover: %v", w2[len(w2)-1], err))
			}
			break
		}
	}
}

func (w *World) checkMissing(n *Node, st *State, A, D []H) {
	L := st.Layout()
	w.count("missing")
	pa, _ := L.CanonProof(A)
	desired := make([]uint64, len(D), len(D)+2)
	for i, h := range D {
		desired[i] = L.LeafAt[h].Pos(L.R)
	}
	heldTargets := padU(pa.Targets)
	var got []uint64
	// (no fingerprints: the stand-alone GetMissingPositions is excluded from C17)
	heldB, desiredB := n.upSlice(heldTargets, st.N), n.upSlice(desired, st.N)
	if n.big() {
		desiredB = append([]uint64(nil), desiredB...) // the function sorts its last argument
	} else {
		heldB, desiredB = heldTargets, desired
	}
	err, _ := guard(func() error { got = n.downTargets(u.GetMissingPositions(n.cfg.Big+st.N, heldB, desiredB), st.N); return nil })
	if err != nil {
		w.violate(n, "C14", "missing-panic", err.Error())
		return
	}
	have := map[RO]bool{}
	var tA []RO
	inA := map[H]bool{}
	for _, h := range A {
		inA[h] = true
		ro := L.LeafAt[h]
		tA = append(tA, ro)
		p := ro
		for {
			have[p] = true
			if L.IsRoot(p) {
				break
			}
			p = p.Parent()
		}
	}
	for _, ro := range L.ProofPlaces(tA) {
		have[ro] = true
	}
	var tD []RO
	for _, h := range D {
		if !inA[h] {
			tD = append(tD, L.LeafAt[h])
		}
	}
	var exp []uint64
	for _, ro := range L.ProofPlaces(tD) {
		if !have[ro] {
			exp = append(exp, ro.Pos(L.R))
		}
	}
	sortU(exp)
	if !eqU64(exp, got) && !(len(exp) == 0 && len(got) == 0) {
		w.violate(n, "C14", "missing", fmt.Sprintf("GetMissingPositions(N=%d, held %v, desired %v) = %v, expected %v", st.N, pa.Targets, desired, got, exp))
		return
	}
	// supplying the true hashes at those positions makes verification succeed:
	// merge held proof + fetched into the canonical proof of the union via the model and verify
	if len(tD) > 0 {
		union := dedupH(append(append([]H(nil), A...), D...))
		pu, _ := L.CanonProof(union)
		// every canonical proof position of the union must be held or fetched
		fetched := map[uint64]bool{}
		for _, p := range got {
			fetched[p] = true
		}
		var places []RO
		for _, h := range union {
			places = append(places, L.LeafAt[h])
		}
		for _, p := range L.ProofPlaces(places) {
			if !have[p] && !fetched[p.Pos(L.R)] {
				w.violate(n, "C14", "missing-incomplete", fmt.Sprintf("position %d is needed for the union but neither held nor reported missing", p.Pos(L.R)))
				return
			}
		}
		stump := u.Stump{Roots: append([]H(nil), L.Roots...), NumLeaves: st.N}
		if err, _ := guard(func() error { _, e := u.Verify(stump, union, pu); return e }); err != nil {
			w.violate(n, "C14", "missing-verify", "completed proof does not verify: "+err.Error())
		}
	}
}

// downTargets: answers of the helpers for a node embedded at a big offset, back
// in the coordinates of the simulated forest.
func (n *Node) downTargets(ts []uint64, nSmall uint64) []uint64 {
	if !n.big() || ts == nil {
		return ts
	}
	out := make([]uint64, len(ts))
	for i, t := range ts {
		out[i] = n.down(t, nSmall)
	}
	return out
}
