package main

import (
	"bytes"
	"fmt"
	"runtime"
	"strconv"
	"sync"
	"time"
)

// Seeded cooperative scheduler over real goroutines (C12).
//
// Tasks are real goroutines calling the real library on one shared instance.
// A task parks (blocks on its own channel) at every point the harness owns:
// before each call, and inside the library's critical sections whenever the
// library touches its storage through the MapPollard.Nodes / CachedLeaves
// interfaces or the io.Writer / io.Reader it was given (existing seams).  The
// scheduler resumes exactly one parked task at a time, chosen by the case's
// pick list, and then waits until the execution has settled again: every task
// is parked, finished, or REALLY blocked on the library's own lock.  The lock
// is never modelled: "blocked" is read from the Go runtime's goroutine wait
// reasons.  A removed or weakened lock therefore shows up as a task that makes
// progress where it should have blocked.

const (
	stParked int32 = iota
	stRunning
	stFinished
)

type schedTask struct {
	id       int
	name     string
	gid      uint64
	status   int32
	resume   *parker
	parkKind string // "precall" | "access" | "io"
	body     func(t *schedTask)

	// maintained by the task itself, read by the scheduler only when settled
	opIdx        int // index of the call in progress / about to start
	opsDone      int
	inCall       bool
	callAccesses int        // accesses executed in the current call
	pending      *accessRec // access about to execute (parked before it)
	readMaps     [2]bool    // maps read in the current call
	wroteMaps    [2]bool    // maps written in the current call
	blockedSeen  bool       // was seen blocked on a lock during the current call
	everBlocked  int
	lockDepth    int // lock acquisitions seen (hook) in the current call
}

type accessRec struct {
	mapID int
	write bool
}

type sched struct {
	tasks      []*schedTask
	byGID      map[uint64]*schedTask // filled by start() before any task is resumed; read-only afterwards
	seq        int64                 // global event sequence number (history stamps)
	steps      int
	trace      func(format string, a ...interface{})
	hang       bool
	onConflict func(x, y *schedTask, a accessRec)
	parkAt     func(t *schedTask, kind string) bool
}

//go:norace
func (s *sched) stamp() int64 { s.seq++; return s.seq }

func (s *sched) addTask(name string, body func(t *schedTask)) *schedTask {
	t := &schedTask{id: len(s.tasks), name: name, resume: newParker(), body: body, status: stRunning}
	s.tasks = append(s.tasks, t)
	return t
}

// start launches every task goroutine; each reports its goroutine id and
// parks at once.  The id table is complete and read-only before the first
// task is resumed (no lock is ever taken on a task's path through the
// harness: a harness lock would be indistinguishable from the library's in
// the runtime's wait reasons).
func (s *sched) start() {
	ids := make(chan *schedTask, len(s.tasks))
	boot := make(chan struct{})
	for _, t := range s.tasks {
		t := t
		go func() {
			// deferred: a task unwound with runtime.Goexit (shutdown) finishes too
			defer storeStatus(t, stFinished)
			t.gid = curGID()
			ids <- t
			<-boot // released by start() once the table is complete
			t.body(t)
		}()
	}
	s.byGID = map[uint64]*schedTask{}
	for range s.tasks {
		t := <-ids
		s.byGID[t.gid] = t
	}
	close(boot)
}

//go:norace
func (t *schedTask) park(kind string) {
	t.parkKind = kind
	storeStatus(t, stParked)
	t.resume.wait()
}

//go:norace
func (s *sched) current() *schedTask {
	return s.byGID[curGID()]
}

// settle waits until every task is parked, finished or blocked on a lock.
// Returns false if that does not happen within the watchdog (a task spins).
//
//go:norace
func (s *sched) settle() bool {
	// watchdog: 20 s of time actually spent waiting; each loop iteration counts for
	// at most 10 ms, so a pause of the whole machine cannot use the budget up
	var waited time.Duration
	last := time.Now()
	spins := 0
	for {
		var running []*schedTask
		for _, t := range s.tasks {
			if loadStatus(t) == stRunning {
				running = append(running, t)
			}
		}
		if len(running) == 0 {
			return true
		}
		spins++
		if spins < 200 {
			runtime.Gosched()
			continue
		}
		// Statuses were sampled BEFORE the dump and only that sample is used: a
		// task that was parked or finished then has already released whatever it
		// was going to release, so goroutines it woke are runnable in the dump.
		// (Re-reading a status after the dump would pair a stale dump with a
		// fresh status and could call a just-released task "blocked".)
		blocked := lockBlockedGoroutines()
		all := true
		for _, t := range running {
			if t.gid == 0 || !blocked[t.gid] {
				all = false
				break
			}
		}
		if all {
			// The dump is a consistent snapshot (world stopped): every task that
			// is not parked/finished waits for a lock, so nobody can release them
			// until the scheduler resumes a parked task.
			for _, t := range running {
				if !t.blockedSeen {
					t.blockedSeen = true
					t.everBlocked++
				}
			}
			return true
		}
		now := time.Now()
		d := now.Sub(last)
		last = now
		if d > 10*time.Millisecond {
			d = 10 * time.Millisecond
		}
		if waited += d; waited > 20*time.Second {
			s.hang = true
			return false
		}
		if spins > 400 {
			time.Sleep(20 * time.Microsecond)
		}
	}
}

//go:norace
func (s *sched) runnable() []*schedTask {
	var out []*schedTask
	for _, t := range s.tasks {
		if loadStatus(t) == stParked {
			out = append(out, t)
		}
	}
	return out
}

//go:norace
func (s *sched) unfinished() []*schedTask {
	var out []*schedTask
	for _, t := range s.tasks {
		if loadStatus(t) != stFinished {
			out = append(out, t)
		}
	}
	return out
}

//go:norace
func (s *sched) resume(t *schedTask) {
	storeStatus(t, stRunning)
	t.resume.release()
}

// ---------------------------------------------------------------------------
// goroutine introspection

func curGID() uint64 {
	var buf [64]byte
	n := runtime.Stack(buf[:], false)
	// "goroutine 123 [running]:"
	b := buf[:n]
	b = bytes.TrimPrefix(b, []byte("goroutine "))
	i := bytes.IndexByte(b, ' ')
	if i < 0 {
		return 0
	}
	id, _ := strconv.ParseUint(string(b[:i]), 10, 64)
	return id
}

var stackBuf = make([]byte, 1<<20)
var stackMu sync.Mutex

var lockWaitReasons = [][]byte{
	[]byte("sync.RWMutex.RLock"), []byte("sync.RWMutex.Lock"), []byte("sync.Mutex.Lock"),
	[]byte("semacquire"), // older runtimes
}

// lockBlockedGoroutines returns the ids of goroutines whose wait reason is a
// sync lock acquisition, from one consistent all-goroutine dump.
func lockBlockedGoroutines() map[uint64]bool {
	stackMu.Lock()
	defer stackMu.Unlock()
	n := runtime.Stack(stackBuf, true)
	for n == len(stackBuf) {
		stackBuf = make([]byte, 2*len(stackBuf))
		n = runtime.Stack(stackBuf, true)
	}
	out := map[uint64]bool{}
	b := stackBuf[:n]
	for len(b) > 0 {
		// header line of a goroutine block
		eol := bytes.IndexByte(b, '\n')
		line := b
		if eol >= 0 {
			line = b[:eol]
		}
		if bytes.HasPrefix(line, []byte("goroutine ")) {
			rest := line[len("goroutine "):]
			sp := bytes.IndexByte(rest, ' ')
			if sp > 0 {
				id, _ := strconv.ParseUint(string(rest[:sp]), 10, 64)
				st := rest[sp+1:]
				if len(st) > 0 && st[0] == '[' {
					st = st[1:]
					for _, r := range lockWaitReasons {
						if bytes.HasPrefix(st, r) {
							// only a wait inside sync.RWMutex counts (the forest's lock);
							// any other mutex is not ours to interpret
							end := bytes.Index(b, []byte("\n\n"))
							blk := b
							if end >= 0 {
								blk = b[:end]
							}
							if bytes.Contains(blk, []byte("sync.(*RWMutex).")) {
								out[id] = true
							}
						}
					}
				}
			}
		}
		// skip to the next block
		nx := bytes.Index(b, []byte("\n\n"))
		if nx < 0 {
			break
		}
		b = b[nx+2:]
	}
	return out
}

// schedCanary proves, in this very process and toolchain, that a goroutine
// blocked on RWMutex.RLock / RWMutex.Lock is recognised and a running or
// channel-parked one is not.  Machinery trouble (exit 2) otherwise.
func schedCanary() error {
	var mu sync.RWMutex
	mu.Lock()
	ids := make(chan uint64, 3)
	ids2 := make(chan uint64, 1)
	release := make(chan struct{})
	go func() { ids <- curGID(); mu.RLock(); mu.RUnlock() }()
	go func() { ids2 <- curGID(); <-release }()
	g1, g2 := <-ids, <-ids2
	ok := false
	for i := 0; i < 2000; i++ {
		b := lockBlockedGoroutines()
		if b[g2] {
			return fmt.Errorf("canary: a goroutine parked on a channel was reported as lock-blocked")
		}
		if b[g1] {
			ok = true
			break
		}
		time.Sleep(50 * time.Microsecond)
	}
	if !ok {
		return fmt.Errorf("canary: a goroutine blocked in RWMutex.RLock was not recognised (runtime wait reasons changed?)")
	}
	// a writer waiting for a reader
	var mu2 sync.RWMutex
	mu2.RLock()
	go func() { ids <- curGID(); mu2.Lock(); mu2.Unlock() }()
	g3 := <-ids
	ok = false
	for i := 0; i < 2000; i++ {
		if lockBlockedGoroutines()[g3] {
			ok = true
			break
		}
		time.Sleep(50 * time.Microsecond)
	}
	mu.Unlock()
	mu2.RUnlock()
	close(release)
	if !ok {
		return fmt.Errorf("canary: a goroutine blocked in RWMutex.Lock was not recognised")
	}
	return nil
}
