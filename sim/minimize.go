package main

import "time"

// Minimiser: delta debugging on the step list (drop chunks, then single
// steps), then node-set reduction and argument shrinking, keeping only
// candidates that fail with the same property and violation class.

func sameFailure(sc *Scenario, opt Options, class string) (bool, *Violation) {
	res := RunScenario(sc, opt)
	for i := range res.Violations {
		if res.Violations[i].Class == class {
			return true, &res.Violations[i]
		}
	}
	return false, nil
}

func Minimize(sc *Scenario, opt Options, class string, budget time.Duration) *Scenario {
	deadline := time.Now().Add(budget)
	opt.Trace = false
	best := sc.Clone()
	try := func(c *Scenario) bool {
		if time.Now().After(deadline) {
			return false
		}
		ok, _ := sameFailure(c, opt, class)
		return ok
	}
	// 0. cut everything after the failing step
	if ok, v := sameFailure(best, opt, class); ok && v.Step+1 < len(best.Steps) {
		c := best.Clone()
		c.Steps = c.Steps[:v.Step+1]
		if try(c) {
			best = c
		}
	}
	// 1. ddmin on steps
	n := 2
	for len(best.Steps) >= 2 && time.Now().Before(deadline) {
		chunk := (len(best.Steps) + n - 1) / n
		reduced := false
		for start := 0; start < len(best.Steps); start += chunk {
			end := start + chunk
			if end > len(best.Steps) {
				end = len(best.Steps)
			}
			c := best.Clone()
			c.Steps = append(c.Steps[:start:start], c.Steps[end:]...)
			if len(c.Steps) > 0 && try(c) {
				best = c
				if n > 2 {
					n--
				}
				reduced = true
				break
			}
		}
		if !reduced {
			if chunk == 1 {
				break
			}
			n *= 2
			if n > len(best.Steps) {
				n = len(best.Steps)
			}
		}
	}
	// 2. drop nodes that are not needed (keep indexes stable for node-directed steps by only dropping from the end,
	//    and otherwise replacing a node by a cheap stump)
	for i := len(best.Nodes) - 1; i >= 0 && time.Now().Before(deadline); i-- {
		if best.Nodes[i].Kind == "stump" && best.Nodes[i].Relay == "" {
			continue
		}
		c := best.Clone()
		c.Nodes[i] = NodeCfg{Kind: "stump"}
		if try(c) {
			best = c
		}
	}
	for len(best.Nodes) > 1 && time.Now().Before(deadline) {
		c := best.Clone()
		c.Nodes = c.Nodes[:len(c.Nodes)-1]
		if !try(c) {
			break
		}
		best = c
	}
	// 3. argument shrinking
	for pass := 0; pass < 2; pass++ {
		for i := range best.Steps {
			if time.Now().After(deadline) {
				break
			}
			s := best.Steps[i]
			switch s.Op {
			case "block":
				// fewer additions
				for _, a := range []int{0, 1, 2, s.Adds / 2, s.Adds - 1} {
					if a >= 0 && a < best.Steps[i].Adds {
						c := best.Clone()
						c.Steps[i].Adds = a
						if try(c) {
							best = c
						}
					}
				}
				// fewer deletions
				for len(best.Steps[i].Dels) > 0 && time.Now().Before(deadline) {
					d := best.Steps[i].Dels
					c := best.Clone()
					c.Steps[i].Dels = nil
					if try(c) {
						best = c
						break
					}
					removed := false
					for j := range d {
						c := best.Clone()
						c.Steps[i].Dels = append(append([]int(nil), d[:j]...), d[j+1:]...)
						if try(c) {
							best = c
							removed = true
							break
						}
					}
					if !removed {
						break
					}
				}
				// plain latencies
				if len(s.Lat) > 0 {
					c := best.Clone()
					c.Steps[i].Lat = nil
					if try(c) {
						best = c
					}
				}
			case "tick":
				if s.Dt != 1 {
					c := best.Clone()
					c.Steps[i].Dt = 1
					if try(c) {
						best = c
					}
				}
			case "tip", "hb":
				if len(s.Lat) > 0 {
					c := best.Clone()
					c.Steps[i].Lat = nil
					if try(c) {
						best = c
					}
				}
			case "prune", "ingest", "query":
				for len(best.Steps[i].Picks) > 1 && time.Now().Before(deadline) {
					c := best.Clone()
					c.Steps[i].Picks = c.Steps[i].Picks[:len(c.Steps[i].Picks)-1]
					if !try(c) {
						break
					}
					best = c
				}
			}
		}
	}
	return best
}
