package main

import (
	"bufio"
	"bytes"
	"encoding/json"
	"fmt"
	"io"
	"os"
	"sort"
	"time"

	u "github.com/utreexo/utreexo"
)

// Disk fault sweep (C13): for every forest instance of a sampled reachable
// state (built by the network simulation from the real library), the single
// fault space of the persistence surface is swept:
//
//   chunk    every reader chunking mode (whole, 1 byte, halves, seeded random
//            sizes, data-with-EOF, random + data-with-EOF): the restored
//            instance must be observationally equal to the original and the
//            reported count must equal the stream length;
//   prefix   every strict prefix of the stream (every offset up to 4 KiB, then
//            all record boundaries +-1 and seeded offsets): restore must return
//            an error, or an instance observationally equal to the original;
//            never panic;
//   wfail    a sink that fails at every offset (same offset set), with and
//            without a partial count: the writer must return a non-nil error and
//            must not report more bytes than the sink accepted; never panic;
//   evolve   original and restored instance receive the same further block and
//            then undo it, and then undo the last block of the history: they
//            must stay observationally equal.

type DiskFault struct {
	Node    int    `json:"node"`
	Kind    string `json:"kind"` // chunk | prefix | wfail | evolve
	Arg     int    `json:"arg"`
	Partial bool   `json:"partial,omitempty"`
	Transient bool `json:"transient,omitempty"`
	ByteSink  bool `json:"bytesink,omitempty"`
}

type DiskCase struct {
	Seed    uint64     `json:"seed"`
	History *Scenario  `json:"history"`
	Fault   *DiskFault `json:"fault,omitempty"`
}

func (c *DiskCase) Size() int { return len(c.History.Steps) }

type diskEngine struct{}

func (e *diskEngine) Name() string     { return "disk-sweep" }
func (e *diskEngine) Property() string { return "C13" }
func (e *diskEngine) Describe() (string, []string, []string) {
	return "one case = one reachable state (seeded block history with reorganisations, prune/ingest on partial forests, executed by the network simulation on the real library) and, for each forest instance in it (Pollard, full and partial MapPollard with seeded TotalRows and storage iteration order), the complete single-fault sweep of its serialized stream: 6 reader chunkings, every strict prefix (all offsets up to 4 KiB; beyond that record boundaries +-1 and seeded offsets), a failing sink at every such offset with and without partial count, and the evolve/undo comparison of original and restored instance; non-trivial = at least one instance with a non-empty stream was swept; distinct = digest of (state, stream bytes, verdicts)",
		[]string{"Pollard.WriteTo / SerializeSize / RestorePollardFrom", "MapPollard.Write / Read", "Modify / Undo / Verify / Prove / GetHash / GetLeafPosition on original and restored instances"},
		[]string{"io.Reader with chosen chunking / truncation", "io.Writer failing at a chosen offset", "block source and node glue that build the state"}
}

func (e *diskEngine) genCase(seed uint64) *DiskCase {
	r := SubRng(seed, "disk-gen")
	p := &Profile{Name: "diskstate", Property: "C13", MaxBlocks: 8, MaxAdds: 12, PReorg: 10, PCacheOps: 12,
		Nodes: func(r *Rng) []NodeCfg {
			return []NodeCfg{{Kind: "pollard"}, {Kind: "mapfull", TotalRows: -1, DetMaps: true}, {Kind: "mapfull", TotalRows: rowsChoice(r), DetMaps: r.Bool()},
				{Kind: "mappartial", TotalRows: -1, DetMaps: true}, {Kind: "mappartial", TotalRows: rowsChoice(r), DetMaps: r.Bool()}}
		}}
	if r.Pct(12) {
		p.MaxBlocks, p.MaxAdds = 16, 48
	}
	sc := Generate(p, mix64(seed^0xd15c))
	if r.Pct(4) {
		// size ladder: record counts at and around powers of two (a full forest of
		// 2^k+1 leaves stores exactly 2^(k+1) nodes), where block-wise readers and
		// writers have their boundaries
		k := uint(5 + r.Intn(4)) // 33 .. 257 leaves (513 in the thorough tier)
		if os.Getenv("VERIF_HUGE") == "1" && r.Pct(30) {
			k = 9
		}
		n := 1<<k + 1 + r.Intn(3) - 1
		if len(sc.Nodes) > 3 {
			sc.Nodes = []NodeCfg{sc.Nodes[0], sc.Nodes[1], sc.Nodes[3]} // pointer forest, full and partial map forest
		}
		sc.Steps = []Step{{Op: "block", Adds: n, Seed: r.Next()}}
		if r.Bool() {
			sc.Steps = append(sc.Steps, Step{Op: "block", Dels: []int{r.Intn(n), r.Intn(n)}, Adds: r.Intn(3), Seed: r.Next()})
		}
		return &DiskCase{Seed: seed, History: sc}
	}
	var steps []Step
	for _, s := range sc.Steps {
		switch s.Op {
		case "block", "tip":
			s.Lat = nil
			steps = append(steps, s)
		case "prune", "ingest":
			steps = append(steps, s)
		}
	}
	sc.Steps = steps
	return &DiskCase{Seed: seed, History: sc}
}

func (e *diskEngine) Run(seed uint64, f *Findings) *CaseResult {
	return e.runCase(e.genCase(seed), f)
}

// ---------------------------------------------------------------------------

type diskInst struct {
	acc u.Utreexo
	pol *u.Pollard
	mp  *u.MapPollard
}

func (d diskInst) write(w io.Writer) (int64, error) {
	if d.pol != nil {
		return d.pol.WriteTo(w)
	}
	c, err := d.mp.Write(w)
	return int64(c), err
}

func (e *diskEngine) restore(n *Node, seed uint64, r io.Reader) (inst diskInst, cnt int64, err error, panicked bool) {
	err, panicked = guard(func() error {
		if n.cfg.Kind == "pollard" {
			c, p, e2 := u.RestorePollardFrom(r)
			cnt = c
			if e2 == nil {
				inst = diskInst{acc: p, pol: p}
			}
			return e2
		}
		m := u.NewMapPollard(n.cfg.Kind == "mapfull")
		if n.cfg.DetMaps {
			m.Nodes, m.CachedLeaves = newDetNodes(seed), newDetCached(seed^0x77)
		}
		c, e2 := m.Read(r)
		cnt = int64(c)
		if e2 == nil {
			inst = diskInst{acc: &m, mp: &m}
		}
		return e2
	})
	return
}

// observations: everything visible through the public API (and the exported
// storage seams), as an ordered list of strings.
func (e *diskEngine) observe(d diskInst, n *Node, st *State, seed uint64) []string {
	var out []string
	add := func(name string, f func() string) {
		var v string
		if err, pan := guard(func() error { v = f(); return nil }); pan {
			v = "panic: " + firstLine(err.Error())
		}
		out = append(out, name+"="+v)
	}
	add("numleaves", func() string { return fmt.Sprint(d.acc.GetNumLeaves()) })
	add("roots", func() string { return hexs(d.acc.GetRoots()) })
	add("treerows", func() string { return fmt.Sprint(d.acc.GetTreeRows()) })
	for _, h := range st.Leaves {
		h := h
		add("leafpos:"+short(h), func() string { p, ok := d.acc.GetLeafPosition(h); return fmt.Sprintf("%d,%v", p, ok) })
	}
	L := st.Layout()
	rows := L.R
	if d.mp != nil {
		rows = d.mp.TotalRows
	}
	seen := map[uint64]bool{}
	var poss []uint64
	for ro := range L.Nodes {
		p := ro.Pos(rows)
		if !seen[p] {
			seen[p] = true
			poss = append(poss, p)
		}
	}
	for p := uint64(0); p < uint64(2)<<L.R+3; p++ {
		if !seen[p] {
			seen[p] = true
			poss = append(poss, p)
		}
	}
	sortU(poss)
	for _, p := range poss {
		p := p
		add(fmt.Sprintf("hash:%d", p), func() string { h := d.acc.GetHash(p); return short(h) })
	}
	var tracked []H
	for i, h := range st.Leaves {
		if st.Alive[i] && n.tracks(h) {
			tracked = append(tracked, h)
		}
	}
	prove := func(name string, hs []H) {
		add(name, func() string {
			pr, err := d.acc.Prove(hs)
			return fmt.Sprintf("%v|%v|%s", err != nil, pr.Targets, hexs(pr.Proof))
		})
	}
	if len(tracked) > 0 {
		prove("prove:all", tracked)
		r := SubRng(seed, "diskprove")
		for k := 0; k < 3; k++ {
			var sub []H
			for _, h := range tracked {
				if r.Pct(35) {
					sub = append(sub, h)
				}
			}
			if len(sub) > 0 {
				r.Shuffle(len(sub), func(i, j int) { sub[i], sub[j] = sub[j], sub[i] })
				prove(fmt.Sprintf("prove:sub%d", k), sub)
			}
		}
	}
	if d.mp != nil {
		add("full", func() string { return fmt.Sprint(d.mp.Full, d.mp.TotalRows, d.mp.NumLeaves) })
		add("nodes", func() string {
			var rows []string
			d.mp.Nodes.ForEach(func(k uint64, v u.Leaf) error {
				rows = append(rows, fmt.Sprintf("%d:%s:%v", k, short(v.Hash), v.Remember))
				return nil
			})
			sort.Strings(rows)
			return fmt.Sprint(len(rows), rows)
		})
		add("cached", func() string {
			var rows []string
			d.mp.CachedLeaves.ForEach(func(k H, v uint64) error {
				rows = append(rows, fmt.Sprintf("%s:%d", short(k), v))
				return nil
			})
			sort.Strings(rows)
			return fmt.Sprint(len(rows), rows)
		})
	}
	if d.pol != nil {
		add("numdels", func() string { return fmt.Sprint(d.pol.NumDels, len(d.pol.NodeMap)) })
		add("serializesize", func() string { return fmt.Sprint(d.pol.SerializeSize()) })
	}
	return out
}

func diffObs(a, b []string) string {
	for i := 0; i < len(a) && i < len(b); i++ {
		if a[i] != b[i] {
			return fmt.Sprintf("original %s, restored %s", clip(a[i], 120), clip(b[i], 120))
		}
	}
	if len(a) != len(b) {
		return fmt.Sprintf("%d vs %d observations", len(a), len(b))
	}
	return ""
}

// offsets: the offsets swept for a stream of the given length.
func (e *diskEngine) offsets(n *Node, total int, seed uint64) []int {
	if total <= 4096 {
		out := make([]int, total)
		for i := range out {
			out[i] = i
		}
		return out
	}
	set := map[int]bool{}
	for i := 0; i < 256 && i < total; i++ {
		set[i] = true
	}
	for i := total - 256; i < total; i++ {
		set[i] = true
	}
	// record boundaries +-1: records are 34 bytes (pollard) / 40 or 41 bytes (map forest)
	for _, rec := range []int{34, 40, 41} {
		for _, base := range []int{16, 17, 9, 25} {
			for o := base; o < total; o += rec {
				for d := -1; d <= 1; d++ {
					if o+d >= 0 && o+d < total && len(set) < 6000 {
						set[o+d] = true
					}
				}
			}
		}
	}
	r := SubRng(seed, "offsets")
	for i := 0; i < 1024; i++ {
		set[r.Intn(total)] = true
	}
	out := make([]int, 0, len(set))
	for o := range set {
		out = append(out, o)
	}
	sort.Ints(out)
	return out
}

func (e *diskEngine) runCase(dc *DiskCase, f *Findings) *CaseResult {
	w := BuildWorld(dc.History, Options{Property: "-", Oracles: map[string]bool{"roots": true}})
	stats := w.stats
	cr := &CaseResult{Stats: stats, Case: dc}
	if w == nil || len(w.blocks) == 0 {
		return cr
	}
	st := w.blocks[w.tip].Post
	dg := st.Key()
	report := func(n *Node, class, detail string, fault DiskFault) {
		v := Violation{Property: "C13", Class: class, Node: n.name, Detail: detail}
		if f != nil && f.Matches(v) {
			stats.Known["C13:"+class]++
			return
		}
		for _, x := range cr.Violations {
			if x.Class == class {
				return
			}
		}
		cr.Violations = append(cr.Violations, v)
		if dc.Fault == nil {
			ff := fault
			cr.Case = &DiskCase{Seed: dc.Seed, History: dc.History, Fault: &ff}
		}
	}
	for _, n := range w.nodes {
		if !n.isForest() || n.dead || n.tainted || n.crashed || n.offline || n.at != w.tip || !w.rootsAgree(n, st) {
			continue
		}
		if dc.Fault != nil && dc.Fault.Node != n.idx {
			continue
		}
		dg = mix64(dg ^ e.sweepNode(w, n, st, dc, stats, report))
		if len(cr.Violations) > 0 {
			break
		}
	}
	cr.Digest = dg
	cr.NonTrivial = stats.OracleChecks["disk_instances"] > 0
	return cr
}

func (e *diskEngine) sweepNode(w *World, n *Node, st *State, dc *DiskCase, stats *Stats, report func(*Node, string, string, DiskFault)) uint64 {
	orig := diskInst{acc: n.acc, pol: n.pol}
	if n.mp != nil {
		orig.mp, orig.acc = n.mp.m, n.mp.m
	}
	seed := mix64(dc.Seed ^ uint64(n.idx+1)*0x9e3779b1)
	only := dc.Fault
	want := func(kind string) bool { return only == nil || only.Kind == kind }
	// the stream
	var buf bytes.Buffer
	var cnt int64
	err, pan := guard(func() error { var e2 error; cnt, e2 = orig.write(&buf); return e2 })
	if pan || err != nil {
		report(n, "write-err", fmt.Sprintf("serializing to a healthy sink failed: %v", err), DiskFault{Node: n.idx, Kind: "chunk"})
		return 1
	}
	data := append([]byte(nil), buf.Bytes()...)
	if cnt != int64(len(data)) {
		report(n, "write-count", fmt.Sprintf("writer reported %d bytes, sink received %d", cnt, len(data)), DiskFault{Node: n.idx, Kind: "chunk"})
	}
	if n.pol != nil {
		if sz := n.pol.SerializeSize(); sz != len(data) {
			report(n, "serialize-size", fmt.Sprintf("SerializeSize predicted %d, stream has %d bytes", sz, len(data)), DiskFault{Node: n.idx, Kind: "chunk"})
		}
	}
	stats.OracleChecks["disk_instances"]++
	stats.Reach[fmt.Sprintf("stream_%s", n.cfg.Kind)]++
	// Map forests on the shipped Go maps serialize in the runtime's random map
	// order: their stream bytes (and which record an offset falls into) are not
	// replayable, so they stay out of the digest and a failure found on them is
	// pinned to (instance, fault kind) only: the replay sweeps all offsets again.
	ordered := n.pol != nil || n.cfg.DetMaps
	dg := uint64(len(data))
	if ordered {
		for _, b := range data {
			dg = (dg ^ uint64(b)) * 1099511628211
		}
	}
	base := e.observe(orig, n, st, seed)
	// (i) reader chunkings
	if want("chunk") {
		for _, mode := range []int{0, 1, 2, 3, 4, 5, 10, 11, 12, 13} {
			if only != nil && only.Arg != mode {
				continue
			}
			cr := newChunkReader(data, mode, seed^uint64(mode))
			var rd io.Reader = cr
			switch mode {
			case 11:
				rd = bytes.NewBuffer(append([]byte(nil), data...)) // the concrete types a caller
			case 12:
				rd = bytes.NewReader(data) // is most likely to hand over
			case 13:
				rd = bufio.NewReaderSize(newChunkReader(data, 3, seed^13), 16)
			}
			inst, c2, err, pan := e.restore(n, seed, rd)
			stats.Faults["chunked_restore"]++
			stats.Faults["short_read"] += cr.short
			stats.Faults["eof_with_data"] += cr.eofWithData
			stats.Faults["read_returns_0_nil"] += cr.zeroReads
			fl := DiskFault{Node: n.idx, Kind: "chunk", Arg: mode}
			switch {
			case pan:
				report(n, fmt.Sprintf("restore-panic/chunk%d", mode), fmt.Sprintf("restore panicked on an intact stream (reader mode %d): %v", mode, err), fl)
			case err != nil:
				report(n, fmt.Sprintf("restore-err/chunk%d", mode), fmt.Sprintf("restoring an intact stream failed (reader mode %d, %d bytes): %v", mode, len(data), err), fl)
			default:
				if c2 != int64(len(data)) {
					report(n, "read-count", fmt.Sprintf("restore reported %d bytes consumed, stream has %d (reader mode %d)", c2, len(data), mode), fl)
				}
				if d := diffObs(base, e.observe(inst, n, st, seed)); d != "" {
					report(n, fmt.Sprintf("restore-diff/chunk%d", mode), fmt.Sprintf("restored instance differs from the original (reader mode %d): %s", mode, d), fl)
				}
				stats.OracleChecks["disk_restore_equal"]++
			}
		}
	}
	// (i') the stream followed by other data (a second record in the same file):
	// restore must take exactly its own bytes from the reader
	if want("chunk") && (only == nil || only.Arg >= 6) {
		trailer := make([]byte, 0, len(data)+48)
		trailer = append(trailer, data...)
		for i := 0; i < 48; i++ {
			trailer = append(trailer, byte(mix64(seed^uint64(i))))
		}
		withTrailer := append(append([]byte(nil), data...), trailer...)
		for _, mode := range []int{0, 3} {
			if only != nil && only.Arg != 6+mode {
				continue
			}
			fl := DiskFault{Node: n.idx, Kind: "chunk", Arg: 6 + mode}
			cr := newChunkReader(withTrailer, mode, seed^uint64(mode)^0x7a11)
			inst, c2, err, pan := e.restore(n, seed, cr)
			stats.Faults["restore_with_trailing_data"]++
			switch {
			case pan || err != nil:
				report(n, "restore-err/trailer", fmt.Sprintf("restoring a stream that is followed by other data failed (reader mode %d): %v", mode, err), fl)
			case c2 != int64(len(data)):
				report(n, "read-count", fmt.Sprintf("restore reported %d bytes consumed, its stream has %d (followed by %d bytes of other data)", c2, len(data), len(trailer)), fl)
			case cr.off != len(data):
				report(n, "read-overconsumed", fmt.Sprintf("restore reported %d bytes but took %d bytes from the reader (the stream is followed by other data)", c2, cr.off), fl)
			default:
				if d := diffObs(base, e.observe(inst, n, st, seed)); d != "" {
					report(n, "restore-diff/trailer", "restored instance differs from the original when the stream is followed by other data: "+d, fl)
				}
			}
		}
	}
	offs := e.offsets(n, len(data), seed)
	// (ii) every strict prefix
	if want("prefix") {
		for _, cut := range offs {
			if only != nil && only.Arg >= 0 && only.Arg != cut {
				continue
			}
			fl := DiskFault{Node: n.idx, Kind: "prefix", Arg: cut}
			if !ordered {
				fl.Arg = -1
			}
			mode := 0
			if cut%3 == 1 {
				mode = 4 // the last bytes arrive together with io.EOF
			}
			var rd io.Reader = newChunkReader(data[:cut], mode, seed)
			switch cut % 5 {
			case 2:
				rd = bytes.NewBuffer(append([]byte(nil), data[:cut]...))
			case 4:
				rd = bytes.NewReader(data[:cut])
			}
			inst, _, err, pan := e.restore(n, seed, rd)
			stats.Faults["prefix_cut"]++
			switch {
			case pan:
				report(n, "prefix-panic", fmt.Sprintf("restore panicked on a stream cut at byte %d of %d: %v", cut, len(data), err), fl)
			case err != nil:
				stats.Reach["prefix_rejected"]++
			default:
				if d := diffObs(base, e.observe(inst, n, st, seed)); d != "" {
					report(n, "prefix-accepted", fmt.Sprintf("a stream cut at byte %d of %d was restored without error into a different state: %s", cut, len(data), d), fl)
				} else {
					stats.Reach["prefix_accepted_equal"]++
				}
			}
			if ordered {
				dg = mix64(dg ^ uint64(cut)<<1 ^ b2u(err != nil))
			}
		}
	}
	// (iii) failing sink at every offset
	if want("wfail") {
		for _, lim := range offs {
			for variant := 0; variant < 4; variant++ {
				// the sink fails for good (reporting 0 or the bytes it took), or for one write
				// only; variant 3: a sink that also implements io.ByteWriter (as bytes.Buffer
				// and bufio.Writer do) and fails for good
				partial, transient := variant == 1, variant == 2 || variant == 3 && lim%2 == 1
				byteSink := variant == 3
				if only != nil && only.Arg >= 0 && (only.Arg != lim || only.Partial != partial || only.Transient != transient || only.ByteSink != byteSink) {
					continue
				}
				fl := DiskFault{Node: n.idx, Kind: "wfail", Arg: lim, Partial: partial, Transient: transient, ByteSink: byteSink}
				if !ordered {
					fl.Arg = -1
				}
				fw := &failWriter{limit: lim, partial: partial, transient: transient}
				if transient {
					stats.Faults["writer_failed_once"]++
				}
				var c2 int64
				var sink io.Writer = fw
				if byteSink {
					sink = &failByteWriter{fw}
					stats.Faults["writer_failed_bytewriter_sink"]++
				}
				err, pan := guard(func() error { var e2 error; c2, e2 = orig.write(sink); return e2 })
				stats.Faults["writer_failed"]++
				switch {
				case pan:
					report(n, "write-panic", fmt.Sprintf("writer panicked when the sink failed at byte %d: %v", lim, err), fl)
				case err == nil:
					report(n, "write-noerr", fmt.Sprintf("the sink failed at byte %d of %d (partial=%v, once only=%v) but the writer returned no error (reported %d bytes)", lim, len(data), partial, transient, c2), fl)
				case c2 > int64(fw.buf.Len()):
					report(n, "write-overcount", fmt.Sprintf("the sink accepted %d bytes before failing, the writer reported %d", fw.buf.Len(), c2), fl)
				}
			}
		}
		// the original must be unharmed by the failed writes
		if d := diffObs(base, e.observe(orig, n, st, seed)); d != "" {
			report(n, "write-disturbed", "failed writes changed the instance: "+d, DiskFault{Node: n.idx, Kind: "wfail"})
		}
	}
	// (iv) evolve identically
	if want("evolve") {
		e.evolve(w, n, st, orig, data, seed, stats, report)
	}
	return dg
}

func b2u(b bool) uint64 {
	if b {
		return 1
	}
	return 0
}

// evolve: the same further block, its undo, and the undo of the last history
// block, on the original and on a restored copy.
func (e *diskEngine) evolve(w *World, n *Node, st *State, orig diskInst, data []byte, seed uint64, stats *Stats, report func(*Node, string, string, DiskFault)) {
	fl := DiskFault{Node: n.idx, Kind: "evolve"}
	rest, _, err, pan := e.restore(n, seed, bytes.NewReader(data))
	if pan || err != nil {
		return // reported by the chunk sweep
	}
	r := SubRng(seed, "evolve")
	// the block: deletions among tracked live leaves, a few additions
	var cand []H
	for i, h := range st.Leaves {
		if st.Alive[i] && n.tracks(h) {
			cand = append(cand, h)
		}
	}
	var dels []H
	for _, h := range cand {
		if r.Pct(35) && len(dels) < 12 {
			dels = append(dels, h)
		}
	}
	r.Shuffle(len(dels), func(i, j int) { dels[i], dels[j] = dels[j], dels[i] })
	nAdds := r.Intn(6)
	adds := make([]H, nAdds)
	leaves := make([]u.Leaf, nAdds)
	for i := range adds {
		adds[i] = c12Leaf(seed^0xe701, i+1)
		leaves[i] = u.Leaf{Hash: adds[i], Remember: r.Pct(40)}
	}
	pr, _ := st.Layout().CanonProof(dels)
	post := st.WithDels(dels).WithAdds(adds)
	prevRoots := append([]H(nil), st.Layout().Roots...)
	step := func(name string, f func(d diskInst) error, stAfter *State, track func()) bool {
		ea, pa := guard(func() error { return f(orig) })
		eb, pb := guard(func() error { return f(rest) })
		stats.OracleChecks["disk_evolve_steps"]++
		if pa != pb || (ea != nil) != (eb != nil) {
			report(n, "evolve-diff", fmt.Sprintf("%s: original returned (%v, panic=%v), restored returned (%v, panic=%v)", name, ea, pa, eb, pb), fl)
			return false
		}
		if ea != nil {
			return false // both failed the same way: not a serialization matter
		}
		if track != nil {
			track()
		}
		if d := diffObs(e.observe(orig, n, stAfter, seed), e.observe(rest, n, stAfter, seed)); d != "" {
			report(n, "evolve-diff", fmt.Sprintf("after %s: %s", name, d), fl)
			return false
		}
		return true
	}
	savedRem := copySet(n.remembered)
	if len(dels) > 0 && n.isPartial() {
		if !step("Verify(remember)", func(d diskInst) error { return d.acc.Verify(dels, pr, true) }, st, nil) {
			return
		}
	}
	ok := step("Modify", func(d diskInst) error { return d.acc.Modify(leaves, dels, pr) }, post, func() {
		if n.isPartial() {
			for _, d := range dels {
				delete(n.remembered, d)
			}
			for i, l := range leaves {
				if l.Remember {
					n.remembered[adds[i]] = true
				}
			}
		}
	})
	if !ok {
		n.remembered = savedRem
		return
	}
	ok = step("Undo of the new block", func(d diskInst) error { return d.acc.Undo(uint64(nAdds), pr, dels, prevRoots) }, st, func() {
		n.remembered = copySet(savedRem)
		if n.isPartial() {
			for _, d := range dels {
				n.remembered[d] = true
			}
		}
	})
	if !ok {
		n.remembered = savedRem
		return
	}
	// undo of the last block of the history (applied before the snapshot)
	if b := w.blocks[n.at]; b.ID != 0 && !n.cfg.NoUndo && !(n.cfg.FromRoots > 0) {
		pre := b.Pre
		pr2 := padH(pre.Layout().Roots)
		step(fmt.Sprintf("Undo of history block %d", b.ID), func(d diskInst) error { return d.acc.Undo(uint64(len(b.Adds)), b.Proof, b.Dels, pr2) }, pre, func() {
			if n.isPartial() {
				for _, a := range b.Adds {
					delete(n.remembered, a)
				}
				for _, d := range b.Dels {
					n.remembered[d] = true
				}
			}
		})
	}
	n.remembered = savedRem
}

// ---------------------------------------------------------------------------

func (e *diskEngine) Minimize(ci interface{}, class string, f *Findings, budget time.Duration) interface{} {
	best := ci.(*DiskCase)
	deadline := time.Now().Add(budget)
	fails := func(c *DiskCase) (*DiskCase, bool) {
		if time.Now().After(deadline) {
			return nil, false
		}
		full := &DiskCase{Seed: c.Seed, History: c.History} // full sweep: the offset may move when the history shrinks
		r := e.runCase(full, f)
		for _, v := range r.Violations {
			if v.Class == class {
				if dc, ok := r.Case.(*DiskCase); ok {
					return dc, true
				}
			}
		}
		return nil, false
	}
	// ddmin on the history steps
	n := 2
	for len(best.History.Steps) >= 2 && time.Now().Before(deadline) {
		chunk := (len(best.History.Steps) + n - 1) / n
		reduced := false
		for start := 0; start < len(best.History.Steps); start += chunk {
			end := start + chunk
			if end > len(best.History.Steps) {
				end = len(best.History.Steps)
			}
			h := best.History.Clone()
			h.Steps = append(h.Steps[:start:start], h.Steps[end:]...)
			if len(h.Steps) == 0 {
				continue
			}
			if dc, ok := fails(&DiskCase{Seed: best.Seed, History: h}); ok {
				best = dc
				if n > 2 {
					n--
				}
				reduced = true
				break
			}
		}
		if !reduced {
			if chunk == 1 {
				break
			}
			n *= 2
			if n > len(best.History.Steps) {
				n = len(best.History.Steps)
			}
		}
	}
	// smaller blocks
	for i := range best.History.Steps {
		s := best.History.Steps[i]
		if s.Op == "block" && s.Adds > 1 {
			for _, a := range []int{1, 2, s.Adds / 2} {
				if a >= s.Adds || a < 1 {
					continue
				}
				h := best.History.Clone()
				h.Steps[i].Adds = a
				if dc, ok := fails(&DiskCase{Seed: best.Seed, History: h}); ok {
					best = dc
					break
				}
			}
		}
	}
	return best
}

func (e *diskEngine) Replay(raw json.RawMessage, f *Findings, trace bool) (*CaseResult, []string, error) {
	var dc DiskCase
	if err := json.Unmarshal(raw, &dc); err != nil {
		return nil, nil, err
	}
	cr := e.runCase(&dc, f)
	var log []string
	if trace && dc.Fault != nil {
		log = append(log, fmt.Sprintf("fault: node=%d kind=%s arg=%d partial=%v", dc.Fault.Node, dc.Fault.Kind, dc.Fault.Arg, dc.Fault.Partial))
	}
	return cr, log, nil
}
