package main

import (
	"fmt"
	"os"
	"strings"
)

// Data races under the deterministic scheduler (C12, race build only).
//
// The race build hands control between tasks without any operation the Go
// race detector treats as synchronisation (sync_race.go), so the detector
// sees exactly the happens-before edges the library's own lock creates.  Its
// reports go to the file named by GORACE=log_path (the check sets it); after
// every case the new part of the file is parsed.  A report counts only if BOTH
// conflicting accesses are made by library code (top frame, after skipping the
// Go runtime and the storage stand-ins, inside github.com/utreexo/utreexo):
// the harness's own unsynchronised bookkeeping is expected to be reported and
// is ignored.

var raceLogOff int64

func raceLogPath() string {
	for _, kv := range strings.Fields(os.Getenv("GORACE")) {
		if strings.HasPrefix(kv, "log_path=") {
			return fmt.Sprintf("%s.%d", strings.TrimPrefix(kv, "log_path="), os.Getpid())
		}
	}
	return ""
}

type raceReport struct {
	a, b   string // library functions of the two accesses
	detail string
}

// newRaceReports returns the library-vs-library data races reported since the
// previous call.
func newRaceReports() []raceReport {
	if !raceEnabled {
		return nil
	}
	p := raceLogPath()
	if p == "" {
		return nil
	}
	f, err := os.Open(p)
	if err != nil {
		return nil
	}
	defer f.Close()
	st, err := f.Stat()
	if err != nil || st.Size() <= raceLogOff {
		return nil
	}
	buf := make([]byte, st.Size()-raceLogOff)
	n, _ := f.ReadAt(buf, raceLogOff)
	raceLogOff += int64(n)
	var out []raceReport
	for _, blk := range strings.Split(string(buf[:n]), "==================") {
		if !strings.Contains(blk, "WARNING: DATA RACE") {
			continue
		}
		if r, ok := parseRaceBlock(blk); ok {
			out = append(out, r)
		}
	}
	return out
}

func parseRaceBlock(blk string) (raceReport, bool) {
	lines := strings.Split(blk, "\n")
	var stacks [][]string
	var heads []string
	cur := -1
	for _, l := range lines {
		t := strings.TrimSpace(l)
		switch {
		case strings.HasPrefix(t, "Read at ") || strings.HasPrefix(t, "Write at ") || strings.HasPrefix(t, "Previous read at ") || strings.HasPrefix(t, "Previous write at ") ||
			strings.HasPrefix(t, "Atomic ") || strings.HasPrefix(t, "Previous atomic "):
			stacks = append(stacks, nil)
			heads = append(heads, t)
			cur = len(stacks) - 1
		case strings.HasPrefix(t, "Goroutine ") || t == "":
			if strings.HasPrefix(t, "Goroutine ") {
				cur = -1
			}
		case cur >= 0 && strings.HasPrefix(l, "  ") && !strings.HasPrefix(l, "      "):
			stacks[cur] = append(stacks[cur], t)
		}
	}
	if len(stacks) < 2 {
		return raceReport{}, false
	}
	lib := func(st []string) (string, bool) {
		for _, fn := range st {
			switch {
			case strings.HasPrefix(fn, "runtime."),
				strings.HasPrefix(fn, "main.(*detNodes)"), strings.HasPrefix(fn, "main.(*detCached)"),
				strings.HasPrefix(fn, "main.(*parkNodes)"), strings.HasPrefix(fn, "main.(*parkCached)"):
				continue
			}
			if strings.HasPrefix(fn, "github.com/utreexo/utreexo.") {
				fn = strings.TrimPrefix(fn, "github.com/utreexo/utreexo.")
				if i := strings.Index(fn, "()"); i >= 0 {
					fn = fn[:i]
				}
				return fn, true
			}
			return "", false
		}
		return "", false
	}
	a, okA := lib(stacks[0])
	b, okB := lib(stacks[1])
	if !okA || !okB {
		return raceReport{}, false
	}
	exported := func(st []string) string {
		// the exported method the access happened under (outermost library frame)
		last := ""
		for _, fn := range st {
			if strings.HasPrefix(fn, "github.com/utreexo/utreexo.") {
				last = strings.TrimPrefix(fn, "github.com/utreexo/utreexo.")
				if i := strings.Index(last, "()"); i >= 0 {
					last = last[:i]
				}
			}
		}
		return last
	}
	ea, eb := exported(stacks[0]), exported(stacks[1])
	return raceReport{a: ea, b: eb, detail: fmt.Sprintf("%s in %s (called from %s) vs %s in %s (called from %s)", strings.SplitN(heads[0], " by ", 2)[0], a, ea, strings.SplitN(heads[1], " by ", 2)[0], b, eb)}, true
}

func (e *c12Exec) collectRaces() {
	for _, r := range newRaceReports() {
		e.stats.Faults["race_reports_library"]++
		e.violate("data-race:"+r.a+"/"+r.b, "the Go race detector reports a data race between library accesses that no lock orders: "+r.detail)
	}
}

// raceCanary proves in this process that the pipeline works end to end: two
// goroutines handed off through the parker (no happens-before) touch one
// variable; the detector must report it to the log file this process reads.
func raceCanary() error {
	if !raceEnabled {
		return fmt.Errorf("sched-race needs the binary built with -race")
	}
	p := raceLogPath()
	if p == "" {
		return fmt.Errorf("sched-race: GORACE log_path is not set")
	}
	x := new(int)
	p1, p2 := newParker(), newParker()
	go func() { *x = 1; p1.release() }()
	p1.wait()
	go func() { _ = *x; p2.release() }()
	p2.wait()
	b, err := os.ReadFile(p)
	if err != nil || !strings.Contains(string(b), "WARNING: DATA RACE") {
		return fmt.Errorf("race canary: an unsynchronised access pair handed off through the parker was not reported (log %s: %v)", p, err)
	}
	raceLogOff = int64(len(b))
	return nil
}
