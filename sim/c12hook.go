//go:build verif

package main

import (
	"sync/atomic"

	u "github.com/utreexo/utreexo"
)

// The guarded hook in /repo (build tag verif): verifPoint right after every
// MapPollard lock acquisition.  It gives the scheduler a park point between
// "lock taken" and the first storage access, which the storage seam cannot.

var c12Current atomic.Pointer[c12Exec]

const c12HooksBuilt = true

func init() {
	u.VerifHook = func(m *u.MapPollard, site string) {
		if e := c12Current.Load(); e != nil && m == e.m {
			e.lockPoint(site)
		}
	}
}
