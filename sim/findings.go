package main

import (
	"encoding/json"
	"os"
	"regexp"
	"strings"
)

// Known findings: genuine defects of the library that are recorded rather than
// repaired.  The file is committed under /verif and never written at run time.
// A violation is suppressed (reported as KNOWN-FINDING) only if it matches a
// listed entry: same property, class matching the entry's class pattern and,
// if given, detail / node matching too.  Entries with status "fixed" suppress
// nothing.

type Finding struct {
	ID       string `json:"id"`
	Property string `json:"property"`
	Status   string `json:"status"` // "open" | "fixed"
	Class    string `json:"class"`  // regexp on the violation class
	Node     string `json:"node,omitempty"`
	Detail   string `json:"detail,omitempty"`
	What     string `json:"what"`
	Commit   string `json:"commit,omitempty"`
	reClass, reNode, reDetail *regexp.Regexp
}

type Findings struct {
	Entries []*Finding `json:"findings"`
}

func LoadFindings(path string) (*Findings, error) {
	b, err := os.ReadFile(path)
	if err != nil {
		if os.IsNotExist(err) {
			return &Findings{}, nil
		}
		return nil, err
	}
	var f Findings
	if err := json.Unmarshal(b, &f); err != nil {
		return nil, err
	}
	for _, e := range f.Entries {
		if e.reClass, err = regexp.Compile("^(?:" + e.Class + ")$"); err != nil {
			return nil, err
		}
		if e.Node != "" {
			if e.reNode, err = regexp.Compile(e.Node); err != nil {
				return nil, err
			}
		}
		if e.Detail != "" {
			if e.reDetail, err = regexp.Compile(e.Detail); err != nil {
				return nil, err
			}
		}
	}
	return &f, nil
}

func (f *Findings) Match(v Violation) *Finding {
	if f == nil {
		return nil
	}
	for _, e := range f.Entries {
		if strings.ToLower(e.Status) == "fixed" || e.Property != v.Property {
			continue
		}
		if !e.reClass.MatchString(v.Class) {
			continue
		}
		if e.reNode != nil && !e.reNode.MatchString(v.Node) {
			continue
		}
		if e.reDetail != nil && !e.reDetail.MatchString(v.Detail) {
			continue
		}
		return e
	}
	return nil
}

func (f *Findings) Matches(v Violation) bool { return f.Match(v) != nil }

// OpenFor returns the open findings of a property.
func (f *Findings) OpenFor(prop string) []*Finding {
	var out []*Finding
	if f == nil {
		return out
	}
	for _, e := range f.Entries {
		if e.Property == prop && strings.ToLower(e.Status) != "fixed" {
			out = append(out, e)
		}
	}
	return out
}
