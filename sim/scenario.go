package main

import (
	"encoding/json"
	"os"
)

// A Scenario is the complete, explicit description of one simulated execution:
// node set, and a list of steps (workload, schedule and faults).  The executor
// is a pure function Scenario -> (event log, verdict).  Replay file = Scenario.
//
// All "picks" are indices taken modulo the then-current candidate set (sorted
// deterministically), so deleting earlier steps leaves later ones meaningful —
// that is what makes delta-debugging on the step list work.

type NodeCfg struct {
	Kind      string `json:"kind"`                // stump | light | pollard | mapfull | mappartial
	TotalRows int    `json:"rows"`                // map forests: -1 = library default (63), else initial TotalRows
	DetMaps   bool   `json:"detmaps,omitempty"`   // map forests: inject deterministic seed-permuted maps
	Relay     string `json:"relay,omitempty"`     // "", "reenc" (re-encoded proofs, C05), "rebatch" (split blocks, C01)
	FromRoots int    `json:"fromroots,omitempty"` // partial: bootstrap with NewMapPollardFromRoots at this height (0 = fresh)
	FullRoots bool   `json:"fullroots,omitempty"` // with fromroots: created with full=true (remembers every later addition, never prunes); the C09 storage oracle does not apply
	NoUndo    bool   `json:"noundo,omitempty"`    // node rebuilds instead of undoing (keeps provenance clean)
	Big       uint64 `json:"big,omitempty"`       // stump / light: the simulated forest is embedded at this slot offset of a huge accumulator (big.go)
}

type Step struct {
	Op string `json:"op"`
	// block
	Dels []int  `json:"dels,omitempty"` // picks into live leaves (slot order), without replacement
	Adds int    `json:"adds,omitempty"` // number of fresh leaves
	Seed uint64 `json:"seed,omitempty"` // per-step pure-function seed (remember flags, deletion order, re-encoding, subsets)
	Lat  []int  `json:"lat,omitempty"`  // per-node latency of the announcement; 0 = dropped; negative = duplicated with |lat| and 2|lat|
	// tip: switch the best tip to block Pick%len(blocks) (reorg / branch switch)
	Pick int `json:"pick,omitempty"`
	// tick
	Dt int `json:"dt,omitempty"`
	// node-directed operations
	Node  int    `json:"node,omitempty"`
	Picks []int  `json:"picks,omitempty"`
	Arg   int    `json:"arg,omitempty"`
	Mode  string `json:"mode,omitempty"`
}

type Scenario struct {
	Property    string     `json:"property"`
	Profile     string     `json:"profile"`
	Seed        uint64     `json:"seed"`
	Tree        string     `json:"tree,omitempty"`
	Class       string     `json:"class,omitempty"`
	OddHashes   bool       `json:"odd_hashes,omitempty"`   // a third of the leaf hashes start or end with 12..28 zero / 0xff bytes
	NodeHashLeaf bool      `json:"node_hash_leaf,omitempty"` // an added leaf may carry the hash of an internal node of the forest
	ReAdd       bool       `json:"readd,omitempty"`        // added leaves may repeat the hash of a deleted leaf
	PrefixShare bool       `json:"prefix_share,omitempty"` // all leaf hashes of the run agree in their first 27 bytes (profiles without pointer forests only)
	Forged      int        `json:"forged,omitempty"`       // percent of block deliveries preceded by a forged (rejected) message
	Nodes       []NodeCfg  `json:"nodes"`
	Steps       []Step     `json:"steps"`
	Expect      *Violation `json:"expect,omitempty"`
}

func (s *Scenario) Clone() *Scenario {
	c := *s
	c.Nodes = append([]NodeCfg(nil), s.Nodes...)
	c.Steps = make([]Step, len(s.Steps))
	for i, st := range s.Steps {
		st.Dels = append([]int(nil), st.Dels...)
		st.Lat = append([]int(nil), st.Lat...)
		st.Picks = append([]int(nil), st.Picks...)
		c.Steps[i] = st
	}
	c.Expect = nil
	return &c
}

func (s *Scenario) Save(path string) error {
	b, err := json.MarshalIndent(s, "", " ")
	if err != nil {
		return err
	}
	return os.WriteFile(path, b, 0o644)
}

func LoadScenario(path string) (*Scenario, error) {
	b, err := os.ReadFile(path)
	if err != nil {
		return nil, err
	}
	var s Scenario
	if err := json.Unmarshal(b, &s); err != nil {
		return nil, err
	}
	return &s, nil
}

// Violation is what an oracle reports.
type Violation struct {
	Property string `json:"property"`
	Class    string `json:"class"` // short stable label: used for "same violation" during minimisation and for known-finding matching
	Node     string `json:"node,omitempty"`
	Step     int    `json:"step"`
	Detail   string `json:"detail,omitempty"`
}
