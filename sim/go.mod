module utxosim

go 1.21

require (
	github.com/anishathalye/porcupine v1.3.0
	github.com/utreexo/utreexo v0.0.0
)

require golang.org/x/exp v0.0.0-20220414153411-bcd21879b8fd // indirect

replace github.com/utreexo/utreexo => /repo

replace github.com/anishathalye/porcupine => ./third_party/porcupine
