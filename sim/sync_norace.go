//go:build !race

package main

import "sync/atomic"

// Hand-off between the scheduler and its tasks (ordinary build): a buffered
// channel per task and atomic status words.

const raceEnabled = false

type parker struct{ ch chan struct{} }

func newParker() *parker                { return &parker{ch: make(chan struct{}, 1)} }
func (p *parker) wait()                 { <-p.ch }
func (p *parker) release()              { p.ch <- struct{}{} }
func loadStatus(t *schedTask) int32     { return atomic.LoadInt32(&t.status) }
func storeStatus(t *schedTask, v int32) { atomic.StoreInt32(&t.status, v) }
