package main

// One integer decides everything: every random choice of a run is drawn from
// sub-streams of a splitmix64 generator rooted at VERIF_SEED.  No wall clock,
// no math/rand global, no draws in logging paths.

type Rng struct{ s uint64 }

func mix64(z uint64) uint64 {
	z += 0x9e3779b97f4a7c15
	z = (z ^ (z >> 30)) * 0xbf58476d1ce4e5b9
	z = (z ^ (z >> 27)) * 0x94d049bb133111eb
	return z ^ (z >> 31)
}

func NewRng(seed uint64) *Rng { return &Rng{s: seed} }

// Sub derives an independent named stream so that adding a draw in one place
// does not shift the draws of another.
func SubRng(seed uint64, name string) *Rng {
	h := uint64(1469598103934665603)
	for i := 0; i < len(name); i++ {
		h ^= uint64(name[i])
		h *= 1099511628211
	}
	return &Rng{s: mix64(seed ^ mix64(h))}
}

func (r *Rng) Next() uint64 {
	r.s += 0x9e3779b97f4a7c15
	z := r.s
	z = (z ^ (z >> 30)) * 0xbf58476d1ce4e5b9
	z = (z ^ (z >> 27)) * 0x94d049bb133111eb
	return z ^ (z >> 31)
}

// Intn returns a value in [0,n). n<=0 returns 0.
func (r *Rng) Intn(n int) int {
	if n <= 0 {
		return 0
	}
	return int(r.Next() % uint64(n))
}

func (r *Rng) Bool() bool { return r.Next()&1 == 1 }

// Pct returns true with probability p/100.
func (r *Rng) Pct(p int) bool { return r.Intn(100) < p }

func (r *Rng) Float() float64 { return float64(r.Next()>>11) / float64(1<<53) }

func (r *Rng) Shuffle(n int, swap func(i, j int)) {
	for i := n - 1; i > 0; i-- {
		j := r.Intn(i + 1)
		swap(i, j)
	}
}

// Pick returns one of the weighted choices: weights w[i], returns index.
func (r *Rng) Weighted(w ...int) int {
	t := 0
	for _, x := range w {
		t += x
	}
	if t == 0 {
		return 0
	}
	v := r.Intn(t)
	for i, x := range w {
		if v < x {
			return i
		}
		v -= x
	}
	return len(w) - 1
}
