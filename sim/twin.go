package main

import (
	u "github.com/utreexo/utreexo"
)

// Differential twins: when a node whose history contains undo, restore or
// cache operations disagrees with the model, fresh instances of the same kind
// re-run parts of that history to decide which property owns the disagreement.
// Twins never report violations themselves.

func (w *World) twinShows(n *Node, kind, mode string) bool {
	if n.twinCache == nil {
		n.twinCache = map[string]map[string]bool{}
	}
	if r, ok := n.twinCache[mode]; ok {
		return r[kind]
	}
	kinds := w.runTwin(n, mode)
	n.twinCache[mode] = kinds
	w.logf("%s: twin(%s) shows %v", n.name, mode, kinds)
	return kinds[kind]
}

func (w *World) runTwin(n *Node, mode string) (kinds map[string]bool) {
	kinds = map[string]bool{}
	saveTwin, saveFp := w.inTwin, w.fp.on
	w.inTwin, w.fp.on = true, false
	defer func() {
		w.inTwin, w.fp.on = saveTwin, saveFp
		if r := recover(); r != nil {
			kinds["twin-panic"] = true
		}
	}()
	t := &Node{idx: n.idx, cfg: n.cfg, name: n.name + "/twin-" + mode, blk: map[int]*nodeBlk{}, disk: newSimDisk()}
	t.cfg.Relay = ""
	target := n.ctxTarget
	note := func(k string) {
		if k != "" {
			kinds[k] = true
		}
	}
	switch mode {
	case "forward":
		start := 0
		if n.cfg.FromRoots > 0 {
			w.bootPartialAt(t, n.bootAt)
			start = n.bootAt
		} else {
			w.initNode(t)
		}
		_, apply := w.path(start, target)
		for _, b := range apply {
			if k := w.rawApplyKind(t, b); k != "" {
				note(k)
				return
			}
		}
	case "norestore", "nocacheops":
		if n.cfg.FromRoots > 0 {
			w.bootPartialAt(t, n.bootAt)
		} else {
			w.initNode(t)
		}
		for _, op := range n.ops {
			switch op.kind {
			case "apply":
				if k := w.rawApplyKind(t, w.blocks[op.block]); k != "" {
					note(k)
					return
				}
			case "undo":
				if k := w.rawUndo(t, w.blocks[op.block]); k != "" {
					note(k)
					return
				}
			case "prune":
				if mode == "nocacheops" {
					continue
				}
				guard(func() error { return t.mp.Prune(op.hashes) })
				for _, h := range op.hashes {
					delete(t.remembered, h)
				}
			case "ingest":
				if mode == "nocacheops" {
					continue
				}
				st := w.blocks[t.at].Post
				pr, ok := st.Layout().CanonProof(op.hashes)
				if !ok {
					continue
				}
				if op.arg == 1 {
					guard(func() error { return t.mp.Verify(op.hashes, pr, true) })
				} else {
					guard(func() error { return t.mp.Ingest(op.hashes, pr) })
				}
				for _, h := range op.hashes {
					t.remembered[h] = true
				}
			case "restore":
				// skipped: the twin keeps its memory
			}
		}
	}
	if t.at != target {
		kinds["twin-lost"] = true
		return
	}
	for _, o := range w.observe(t, w.blocks[target].Post, n.ctxSeed) {
		kinds[o.kind] = true
	}
	if t.isPartial() && !kinds["roots"] {
		if cls, _ := w.partialMismatch(t, w.blocks[target].Post); cls != "" {
			kinds["partial"] = true
		}
	}
	return
}

// rawApplyKind applies a block to a twin and returns the mismatch kind of a failure ("" = ok).
func (w *World) rawApplyKind(t *Node, b *Block) string {
	switch t.cfg.Kind {
	case "pollard", "mapfull":
		r := SubRng(b.Seed^uint64(t.idx+1)*0x1f3, "applyfull")
		remember := t.cfg.Kind == "mapfull" && r.Pct(25)
		if len(b.Dels) > 0 || r.Pct(30) {
			err, _ := guard(func() error { return t.acc.Verify(b.Dels, b.Proof, remember) })
			if err != nil {
				return "verify-honest"
			}
		}
		err, _ := guard(func() error { return t.acc.Modify(b.Leaves, b.Dels, b.Proof) })
		if err != nil {
			return "apply-err"
		}
		t.at = b.ID
		return ""
	}
	if !w.rawApply(t, b) {
		return "apply-err"
	}
	return ""
}

func (w *World) rawUndo(t *Node, b *Block) string {
	switch t.cfg.Kind {
	case "stump":
		if nb := t.blk[b.ID]; nb != nil {
			t.st = copyStump(nb.preStump)
		}
	case "light":
		nb := t.blk[b.ID]
		if nb == nil {
			return "undo-err"
		}
		err, _ := guard(func() error {
			var e error
			t.ch, e = t.cp.Undo(uint64(len(b.Adds)), b.Post.N, b.Proof.Targets, b.Dels, t.ch, nb.ud.ToDestroy, b.Proof)
			return e
		})
		t.st = copyStump(nb.preStump)
		for _, a := range b.Adds {
			delete(t.held, a)
		}
		if err != nil {
			return "undo-err"
		}
	default:
		prevRoots := append([]H(nil), b.Pre.Layout().Roots...)
		err, _ := guard(func() error { return t.acc.Undo(uint64(len(b.Adds)), b.Proof, b.Dels, prevRoots) })
		if err != nil {
			return "undo-err"
		}
		if t.isPartial() {
			for _, a := range b.Adds {
				delete(t.remembered, a)
			}
			for _, d := range b.Dels {
				t.remembered[d] = true
			}
		}
	}
	t.at = b.Parent
	return ""
}

var _ = u.Proof{}
