//go:build !verif

package main

import "sync/atomic"

var c12Current atomic.Pointer[c12Exec]

const c12HooksBuilt = false
