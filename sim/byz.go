package main

import (
	"encoding/hex"
	"encoding/json"
	"fmt"
	"sync"
	"sync/atomic"
	"time"

	u "github.com/utreexo/utreexo"
)

// Byzantine fault engine (C03, C04): proof-carrying messages are corrupted in
// flight by structured mutation and fed to every verification entry point.
//
//  C03 (soundness): an accepted claim with non-zero hashes must be true in the
//      model: every hash is the node at its claimed position.
//  C04 (totality, atomic reject): no panic, every call returns within the
//      watchdog deadline, a rejected Stump.Update leaves the stump unchanged.
//
// Per sampled state with at most 32 leaves the single-fault space of an honest
// message is swept completely; on larger states 1-3 seeded mutations are combined.

type Claim struct {
	Hashes  []H
	Targets []uint64
	Proof   []H
	Mut     string // how it was derived from the honest message
	// an empty list is passed as an empty, non-nil slice (Go code sometimes treats the two differently)
	EmptyNonNil bool
}

type claimJSON struct {
	Hashes      []string `json:"hashes"`
	Targets     []uint64 `json:"targets"`
	Proof       []string `json:"proof"`
	Mut         string   `json:"mutation"`
	EmptyNonNil bool     `json:"empty_lists_non_nil,omitempty"`
}

func (c Claim) toJSON() claimJSON {
	j := claimJSON{Targets: c.Targets, Mut: c.Mut, EmptyNonNil: c.EmptyNonNil}
	for _, h := range c.Hashes {
		j.Hashes = append(j.Hashes, hex.EncodeToString(h[:]))
	}
	for _, h := range c.Proof {
		j.Proof = append(j.Proof, hex.EncodeToString(h[:]))
	}
	return j
}

func (j claimJSON) toClaim() Claim {
	c := Claim{Targets: j.Targets, Mut: j.Mut, EmptyNonNil: j.EmptyNonNil}
	dec := func(s string) H {
		var h H
		b, _ := hex.DecodeString(s)
		copy(h[:], b)
		return h
	}
	for _, s := range j.Hashes {
		c.Hashes = append(c.Hashes, dec(s))
	}
	for _, s := range j.Proof {
		c.Proof = append(c.Proof, dec(s))
	}
	return c
}

// ByzCase is the replayable case: the history that builds the state, or a
// synthetic stump, plus (after a failure) the single offending claim.
type ByzCase struct {
	Seed      uint64      `json:"seed"`
	History   *Scenario   `json:"history,omitempty"`
	Big       uint64      `json:"big,omitempty"` // the state is embedded at this slot offset of a huge accumulator (big.go): roots-only verifiers only
	Synthetic *synthStump `json:"synthetic_stump,omitempty"`
	Claim     *claimJSON  `json:"claim,omitempty"`
	Verifier  string      `json:"verifier,omitempty"`
}

type synthStump struct {
	NumLeaves uint64   `json:"num_leaves"`
	Roots     []string `json:"roots"`
}

func (c *ByzCase) Size() int {
	if c.Claim == nil {
		return 0
	}
	return len(c.Claim.Targets) + len(c.Claim.Proof)
}

type byzEngine struct{ prop string }

func (e *byzEngine) Name() string     { return "byz" }
func (e *byzEngine) Property() string { return e.prop }
func (e *byzEngine) Describe() (string, []string, []string) {
	return "one case = one reachable accumulator state (built by the real library from a seeded block history; or a synthetic stump with a huge leaf count) plus honest proof messages for seeded target sets, corrupted in flight: for states with at most 32 leaves the complete single-fault space (every target x every position, every hash x every pool value, duplications, nested ancestors, drops, swaps, padding), otherwise 1-3 seeded faults; each corrupted message is fed to Verify, Stump.Update, Pollard.Verify, MapPollard.Verify and MapPollard.VerifyPartialProof under a watchdog; non-trivial = at least one corrupted message was accepted or rejected by at least two verifiers; distinct = digest of (state, claims, verdicts)",
		[]string{"Verify", "Stump.Update", "Pollard.Verify", "MapPollard.Verify", "MapPollard.VerifyPartialProof", "calculateHashes (through all of them)", "Pollard/MapPollard.Modify (state construction)"},
		[]string{"block source", "Byzantine corruptor", "watchdog"}
}

// verifiers available in a case
type byzState struct {
	st      *State
	stump   u.Stump
	pol     *u.Pollard
	mpFull  *u.MapPollard
	mpPart  *u.MapPollard // holds only roots (from-roots) -> VerifyPartialProof needs the complete proof
	mpPart2 *u.MapPollard // partial node with some remembered leaves
	synth   bool
	big     *Node // non-nil: claims are translated to the big coordinates before they reach a verifier
	// other states of the history's block tree (earlier blocks, undone blocks,
	// other branches): honest proofs of those states are replayed as stale claims
	others []*State
}

var byzVerifiers = []string{"Verify", "Stump.Update", "Pollard.Verify", "MapPollard.Verify", "MapPollard(partial).Verify", "VerifyPartialProof",
	// the partial-proof entry point on the full forest too (it holds every leaf, so
	// fast paths that look at stored leaves are reachable there)
	"VerifyPartialProof(full)",
	// the remembering variants mutate the forest, so each call gets a private copy of the instance
	"MapPollard.Verify(remember)", "MapPollard(partial).Verify(remember)", "VerifyPartialProof(remember)"}

// cloneMapPollard copies a map forest through its exported fields.
func cloneMapPollard(m *u.MapPollard) *u.MapPollard {
	c := u.NewMapPollard(m.Full)
	c.TotalRows, c.NumLeaves = m.TotalRows, m.NumLeaves
	m.Nodes.ForEach(func(k uint64, v u.Leaf) error { c.Nodes.Put(k, v); return nil })
	m.CachedLeaves.ForEach(func(k H, v uint64) error { c.CachedLeaves.Put(k, v); return nil })
	return &c
}

type byzProgress struct {
	mu       sync.Mutex
	counter  int64
	claim    Claim
	verifier string
}

func (e *byzEngine) buildState(bc *ByzCase) (*byzState, *Stats) {
	if bc.Synthetic != nil {
		bs := &byzState{synth: true}
		bs.stump.NumLeaves = bc.Synthetic.NumLeaves
		for _, s := range bc.Synthetic.Roots {
			var h H
			b, _ := hex.DecodeString(s)
			copy(h[:], b)
			bs.stump.Roots = append(bs.stump.Roots, h)
		}
		return bs, NewStats()
	}
	// "prove": the forests also prove and verify between the blocks of the history
	// (state a verifier keeps between calls must not outlive a block or an undo)
	w := BuildWorld(bc.History, Options{Property: "-", Oracles: map[string]bool{"roots": true, "prove": true}})
	bs := &byzState{st: w.blocks[w.tip].Post}
	for id := len(w.blocks) - 1; id >= 1 && len(bs.others) < 6; id-- {
		if id != w.tip && w.blocks[id].Post.N > 0 {
			bs.others = append(bs.others, w.blocks[id].Post)
		}
	}
	L := bs.st.Layout()
	bs.stump = u.Stump{Roots: append([]H(nil), L.Roots...), NumLeaves: bs.st.N}
	for _, n := range w.nodes {
		if n.dead || n.tainted || n.at != w.tip || !w.rootsAgree(n, bs.st) {
			continue
		}
		switch {
		case n.cfg.Kind == "pollard":
			bs.pol = n.pol
		case n.cfg.Kind == "mapfull":
			bs.mpFull = n.mp.m
		case n.cfg.Kind == "mappartial":
			bs.mpPart2 = n.mp.m
		}
	}
	if bc.Big != 0 {
		// embedded at a big offset: only verifiers that need no leaves
		bs.big = &Node{cfg: NodeCfg{Kind: "stump", Big: bc.Big}}
		bs.stump = bs.big.bigStump(bs.st)
		bs.pol, bs.mpFull, bs.mpPart2 = nil, nil, nil
		m := u.NewMapPollardFromRoots(append([]H(nil), bs.stump.Roots...), bs.stump.NumLeaves, false)
		bs.mpPart = &m
		w.stats.Reach["byz_state_at_big_offset"]++
		return bs, w.stats
	}
	if bs.st.N > 0 {
		m := u.NewMapPollardFromRoots(append([]H(nil), L.Roots...), bs.st.N, false)
		bs.mpPart = &m
	}
	return bs, w.stats
}

func (e *byzEngine) genCase(seed uint64) *ByzCase {
	r := SubRng(seed, "byz-gen")
	bc := &ByzCase{Seed: seed}
	if e.prop == "C04" && r.Pct(12) {
		// synthetic well-formed stump with a huge leaf count and random roots
		n := []uint64{uint64(1)<<32 - 1 - uint64(r.Intn(1000)), uint64(1)<<32 + uint64(r.Intn(1000)), uint64(1)<<62 + uint64(r.Next()%(1<<20)), (uint64(1) << 63) + uint64(r.Intn(5)), ^uint64(0) - uint64(r.Intn(3))}[r.Intn(5)]
		ss := &synthStump{NumLeaves: n}
		for i := 0; i < 64; i++ {
			if n&(uint64(1)<<uint(i)) != 0 {
				var h H
				x := r.Next()
				for k := 0; k < 32; k++ {
					h[k] = byte(x >> (uint(k%8) * 8))
					if k%8 == 7 {
						x = mix64(x)
					}
				}
				ss.Roots = append(ss.Roots, hex.EncodeToString(h[:]))
			}
		}
		bc.Synthetic = ss
		return bc
	}
	// a reachable state: short block history
	p := &Profile{Name: "byzstate", Property: e.prop, MaxBlocks: 8, MaxAdds: 12, PReorg: 18,
		Nodes: func(r *Rng) []NodeCfg {
			return []NodeCfg{{Kind: "pollard"}, {Kind: "mapfull", TotalRows: rowsChoice(r)}, {Kind: "mappartial", TotalRows: rowsChoice(r)}}
		}}
	if r.Pct(15) {
		p.MaxBlocks, p.MaxAdds = 20, 64
	}
	if r.Pct(4) {
		p.MaxBlocks, p.MaxAdds = 12, 400 // trees of 512 and more leaves: rows 9+
	}
	sc := Generate(p, mix64(seed^0xb42))
	// plain delivery: no latencies / faults needed to build a state; the source's
	// tip switches stay, so the forests reach the state through Undo as well
	var steps []Step
	for _, s := range sc.Steps {
		if s.Op == "block" || s.Op == "tip" || s.Op == "tick" {
			s.Lat = nil
			steps = append(steps, s)
		}
	}
	sc.Steps = steps
	if nb := countBlocks(steps); nb >= 2 && r.Pct(35) {
		// the generator always ends on a block; here the history ends on a
		// reorganisation instead: the claims meet forests that have just undone
		// one or more blocks (back to the block created before the last one)
		sc.Steps = append(sc.Steps, Step{Op: "tick", Dt: 2}, Step{Op: "tip", Pick: nb - 1 - r.Intn(2)*r.Intn(2)}, Step{Op: "tick", Dt: 2})
	}
	bc.History = sc
	if r.Pct(25) {
		bc.Big = bigOffset(r)
	}
	return bc
}

func (e *byzEngine) Run(seed uint64, f *Findings) *CaseResult {
	bc := e.genCase(seed)
	return e.runCase(bc, f, false)
}

func (e *byzEngine) runCase(bc *ByzCase, f *Findings, single bool) *CaseResult {
	cr := &CaseResult{Stats: NewStats(), Case: bc}
	prog := &byzProgress{}
	done := make(chan struct{})
	var body func()
	var viol []Violation
	var firstCase *ByzCase
	digest := uint64(0)
	report := func(v Violation, c Claim, verifier string) {
		if f != nil && f.Matches(v) {
			cr.Stats.Known[v.Property+":"+v.Class]++
			return
		}
		if v.Property != e.prop {
			cr.Stats.Foreign[v.Property+":"+v.Class]++
			return
		}
		if firstCase == nil {
			cj := c.toJSON()
			firstCase = &ByzCase{Seed: bc.Seed, History: bc.History, Synthetic: bc.Synthetic, Claim: &cj, Verifier: verifier}
			viol = append(viol, v)
		}
	}
	body = func() {
		defer close(done)
		defer func() {
			if r := recover(); r != nil {
				cr.Panic = fmt.Sprintf("harness panic in byz engine: %v", r)
			}
		}()
		bs, st := e.buildState(bc)
		cr.Stats.Merge(st)
		if bs.st != nil {
			cr.Stats.StateKeys[bs.st.Key()] = struct{}{}
			cr.Stats.ShapeKeys[bs.st.ShapeKey()] = struct{}{}
		}
		var claims []Claim
		if single && bc.Claim != nil {
			claims = []Claim{bc.Claim.toClaim()}
		} else {
			claims = e.genClaims(bc, bs, cr.Stats)
		}
		for _, c := range claims {
			if firstCase != nil {
				break
			}
			d := e.evaluate(bs, c, prog, cr.Stats, report, bc.Verifier, single)
			digest = mix64(digest ^ d)
		}
	}
	go body()
	last := int64(-1)
	stuck := 0
	for {
		select {
		case <-done:
			cr.Digest = digest
			cr.Violations = viol
			if firstCase != nil {
				cr.Case = firstCase
			}
			cr.NonTrivial = cr.Stats.OracleChecks["byz_claims"] >= 2
			return cr
		case <-time.After(250 * time.Millisecond):
			cur := atomic.LoadInt64(&prog.counter)
			if cur == last {
				stuck++
			} else {
				stuck, last = 0, cur
			}
			if stuck >= 20 { // 5 s without finishing a single verifier call
				prog.mu.Lock()
				c, ver := prog.claim, prog.verifier
				prog.mu.Unlock()
				v := Violation{Property: "C04", Class: "hang:" + ver, Detail: fmt.Sprintf("%s did not return within 5 s (watchdog) on targets %v with %d hashes and %d proof hashes [%s]", ver, c.Targets, len(c.Hashes), len(c.Proof), c.Mut)}
				cj := c.toJSON()
				cr.Case = &ByzCase{Seed: bc.Seed, History: bc.History, Synthetic: bc.Synthetic, Claim: &cj, Verifier: ver}
				cr.Stats.Faults["watchdog_fired"]++
				if f != nil && f.Matches(v) {
					cr.Stats.Known["C04:"+v.Class]++
				} else if e.prop == "C04" {
					cr.Violations = []Violation{v}
				} else {
					cr.Stats.Foreign["C04:"+v.Class]++
				}
				cr.NonTrivial = true
				cr.Digest = digest
				hungWorker = true
				return cr
			}
		}
	}
}

// hungWorker: a goroutine is spinning inside the library; the worker process
// must stop taking cases (it exits after reporting).
var hungWorker bool

func (e *byzEngine) Minimize(c interface{}, class string, f *Findings, budget time.Duration) interface{} {
	bc := c.(*ByzCase)
	if bc.Claim == nil || len(class) >= 5 && class[:5] == "hang:" {
		return bc
	}
	deadline := time.Now().Add(budget)
	best := *bc
	fails := func(cand *ByzCase) bool {
		if time.Now().After(deadline) {
			return false
		}
		r := e.runCase(cand, f, true)
		for _, v := range r.Violations {
			if v.Class == class {
				return true
			}
		}
		return false
	}
	cl := best.Claim.toClaim()
	// drop targets (with their hashes), then proof hashes
	for i := len(cl.Targets) - 1; i >= 0 && len(cl.Targets) > 1; i-- {
		if i >= len(cl.Hashes) {
			continue
		}
		c2 := Claim{Mut: cl.Mut}
		c2.Targets = append(append([]uint64(nil), cl.Targets[:i]...), cl.Targets[i+1:]...)
		c2.Hashes = append(append([]H(nil), cl.Hashes[:i]...), cl.Hashes[i+1:]...)
		c2.Proof = cl.Proof
		cj := c2.toJSON()
		cand := best
		cand.Claim = &cj
		if fails(&cand) {
			best, cl = cand, c2
		}
	}
	for i := len(cl.Proof) - 1; i >= 0; i-- {
		c2 := Claim{Mut: cl.Mut, Targets: cl.Targets, Hashes: cl.Hashes}
		c2.Proof = append(append([]H(nil), cl.Proof[:i]...), cl.Proof[i+1:]...)
		cj := c2.toJSON()
		cand := best
		cand.Claim = &cj
		if fails(&cand) {
			best, cl = cand, c2
		}
	}
	// shorter history: drop trailing blocks is not possible (the claim refers to the final state); keep it
	return &best
}

func (e *byzEngine) Replay(raw json.RawMessage, f *Findings, trace bool) (*CaseResult, []string, error) {
	var bc ByzCase
	if err := json.Unmarshal(raw, &bc); err != nil {
		return nil, nil, err
	}
	cr := e.runCase(&bc, f, true)
	var log []string
	if trace && bc.Claim != nil {
		log = append(log, fmt.Sprintf("claim: targets=%v hashes=%d proof=%d mutation=%s verifier=%s", bc.Claim.Targets, len(bc.Claim.Hashes), len(bc.Claim.Proof), bc.Claim.Mut, bc.Verifier))
	}
	return cr, log, nil
}

// ---------------------------------------------------------------------------
// claims

func countBlocks(steps []Step) int {
	n := 0
	for _, s := range steps {
		if s.Op == "block" {
			n++
		}
	}
	return n
}

func (e *byzEngine) genClaims(bc *ByzCase, bs *byzState, stats *Stats) []Claim {
	r := SubRng(bc.Seed, "byz-claims")
	var out []Claim
	if bs.synth {
		// no honest proofs exist; arbitrary claims with extreme values
		for k := 0; k < 200; k++ {
			out = append(out, e.extremeClaim(r, bs.stump.NumLeaves, nil))
		}
		return out
	}
	st := bs.st
	L := st.Layout()
	live := st.Live()
	if len(live) == 0 {
		for k := 0; k < 40; k++ {
			out = append(out, e.extremeClaim(r, st.N, nil))
		}
		return out
	}
	w := &World{sc: &Scenario{Seed: bc.Seed}, stats: stats}
	// pool of hash values: every true node hash, roots (incl. zero), zero, fresh
	var pool []H
	for _, h := range L.Nodes {
		pool = append(pool, h)
	}
	sortH(pool)
	pool = append(pool, zeroH, H{0xf1, 0xe2, 0xd3, 9, 9, 9})
	maxPos := (uint64(2) << L.R) + 2
	// stale claims: honest proofs of other states of the block tree (the parent
	// state, an undone block, another branch) presented against this state
	for _, ost := range bs.others {
		ol := ost.Live()
		if len(ol) == 0 {
			continue
		}
		for k := 0; k < 3; k++ {
			sub := w.pickSubset(r, ost, ol)
			if len(sub) > 8 {
				sub = sub[:8]
			}
			pr, ok := ost.Layout().CanonProof(sub)
			if !ok {
				continue
			}
			stats.Reach["byz_stale_claim"]++
			out = append(out, Claim{Hashes: sub, Targets: pr.Targets, Proof: pr.Proof, Mut: "stale: honest proof of another state of the history"})
		}
	}
	nsets := 2
	for s := 0; s < nsets; s++ {
		sub := w.pickSubset(r, st, live)
		if len(sub) > 12 {
			sub = sub[:12]
		}
		honest, _ := L.CanonProof(sub)
		base := Claim{Hashes: sub, Targets: honest.Targets, Proof: honest.Proof, Mut: "honest"}
		out = append(out, base)
		if st.N <= 32 {
			stats.Reach["byz_single_fault_sweep"]++
			out = append(out, e.sweep(base, L, pool, maxPos)...)
			// and seeded combinations of two or three faults
			for k := 0; k < 200; k++ {
				c := base.clone()
				nm := 2 + r.Intn(2)
				for m := 0; m < nm; m++ {
					c = e.mutate(r, c, L, pool, maxPos)
				}
				out = append(out, c)
			}
		} else {
			stats.Reach["byz_seeded_multi_fault"]++
			for k := 0; k < 300; k++ {
				c := base.clone()
				nm := 1 + r.Intn(3)
				for m := 0; m < nm; m++ {
					c = e.mutate(r, c, L, pool, maxPos)
				}
				out = append(out, c)
			}
		}
		if e.prop == "C04" {
			for k := 0; k < 30; k++ {
				out = append(out, e.extremeClaim(r, st.N, &base))
			}
			// length skew between hashes, targets and proof hashes, down to empty lists
			skew := func(mut string, f func(c *Claim)) {
				for _, nn := range []bool{false, true} {
					c := base.clone()
					c.Mut = "skew: " + mut
					c.EmptyNonNil = nn
					f(&c)
					out = append(out, c)
				}
			}
			skew("no hashes", func(c *Claim) { c.Hashes = nil })
			skew("no targets", func(c *Claim) { c.Targets = nil })
			skew("no proof hashes", func(c *Claim) { c.Proof = nil })
			skew("no hashes, no proof hashes", func(c *Claim) { c.Hashes, c.Proof = nil, nil })
			skew("no hashes, no targets", func(c *Claim) { c.Hashes, c.Targets = nil, nil })
			skew("everything empty", func(c *Claim) { c.Hashes, c.Targets, c.Proof = nil, nil, nil })
			skew("one hash short", func(c *Claim) { c.Hashes = c.Hashes[:len(c.Hashes)-1] })
			skew("one target short", func(c *Claim) { c.Targets = c.Targets[:len(c.Targets)-1] })
			skew("one hash too many", func(c *Claim) { c.Hashes = append(c.Hashes, H{0x51, 1}) })
			skew("one target too many", func(c *Claim) { c.Targets = append(c.Targets, c.Targets[0]^1) })
		}
	}
	return out
}

func (c Claim) clone() Claim {
	return Claim{Hashes: append([]H(nil), c.Hashes...), Targets: append([]uint64(nil), c.Targets...), Proof: append([]H(nil), c.Proof...), Mut: c.Mut, EmptyNonNil: c.EmptyNonNil}
}

// sweep: the complete single-fault space of an honest message.
func (e *byzEngine) sweep(base Claim, L *Layout, pool []H, maxPos uint64) []Claim {
	var out []Claim
	mk := func(mut string, f func(c *Claim)) {
		c := base.clone()
		c.Mut = mut
		f(&c)
		out = append(out, c)
	}
	for i := range base.Targets {
		i := i
		for p := uint64(0); p <= maxPos; p++ {
			if p == base.Targets[i] {
				continue
			}
			p := p
			mk(fmt.Sprintf("target[%d]=%d", i, p), func(c *Claim) { c.Targets[i] = p })
		}
		for k, hv := range pool {
			if hv == base.Hashes[i] {
				continue
			}
			hv := hv
			mk(fmt.Sprintf("hash[%d]=pool#%d", i, k), func(c *Claim) { c.Hashes[i] = hv })
		}
		// near misses of the true hash: an attacker picks the claimed bytes freely,
		// so a value that agrees with the true hash in a long prefix or suffix costs nothing
		for _, at := range []int{31, 12, 11, 0} {
			at := at
			mk(fmt.Sprintf("hash[%d] byte %d flipped", i, at), func(c *Claim) { c.Hashes[i][at] ^= 0x5a })
		}
		// duplicate the target, with its own hash and with every pool value
		mk(fmt.Sprintf("dup target[%d]", i), func(c *Claim) {
			c.Targets = append(c.Targets, c.Targets[i])
			c.Hashes = append(c.Hashes, c.Hashes[i])
		})
		for k, hv := range pool {
			hv := hv
			mk(fmt.Sprintf("dup target[%d] with pool#%d", i, k), func(c *Claim) {
				c.Targets = append(c.Targets, c.Targets[i])
				c.Hashes = append(c.Hashes, hv)
			})
		}
		// nested: insert each ancestor of the target with its true hash
		if ro, ok := roOfPos(base.Targets[i], L.R); ok {
			p := ro
			for !L.IsRoot(p) && p.R < 64 {
				p = p.Parent()
				if th, ok := L.Nodes[p]; ok {
					pp, th := p, th
					mk(fmt.Sprintf("nested ancestor %d of target[%d]", pp.Pos(L.R), i), func(c *Claim) {
						c.Targets = append(c.Targets, pp.Pos(L.R))
						c.Hashes = append(c.Hashes, th)
					})
				}
			}
		}
		if i+1 < len(base.Targets) {
			mk(fmt.Sprintf("swap targets %d,%d without hashes", i, i+1), func(c *Claim) { c.Targets[i], c.Targets[i+1] = c.Targets[i+1], c.Targets[i] })
		}
		mk(fmt.Sprintf("drop target[%d] keep hash (length skew)", i), func(c *Claim) {
			c.Targets = append(c.Targets[:i:i], c.Targets[i+1:]...)
		})
		mk(fmt.Sprintf("drop target[%d] and hash", i), func(c *Claim) {
			c.Targets = append(c.Targets[:i:i], c.Targets[i+1:]...)
			c.Hashes = append(c.Hashes[:i:i], c.Hashes[i+1:]...)
		})
	}
	for j := range base.Proof {
		j := j
		for _, at := range []int{31, 12, 0} {
			at := at
			mk(fmt.Sprintf("proof[%d] byte %d flipped", j, at), func(c *Claim) { c.Proof[j][at] ^= 0x5a })
		}
		for k, hv := range pool {
			if hv == base.Proof[j] {
				continue
			}
			hv := hv
			mk(fmt.Sprintf("proof[%d]=pool#%d", j, k), func(c *Claim) { c.Proof[j] = hv })
		}
		mk(fmt.Sprintf("drop proof[%d]", j), func(c *Claim) { c.Proof = append(c.Proof[:j:j], c.Proof[j+1:]...) })
		if j+1 < len(base.Proof) {
			mk(fmt.Sprintf("swap proof %d,%d", j, j+1), func(c *Claim) { c.Proof[j], c.Proof[j+1] = c.Proof[j+1], c.Proof[j] })
		}
	}
	junk := H{0xaa, 0x55, 1}
	mk("append junk proof hash", func(c *Claim) { c.Proof = append(c.Proof, junk) })
	mk("prepend junk proof hash", func(c *Claim) { c.Proof = append([]H{junk}, c.Proof...) })
	mk("empty proof", func(c *Claim) { c.Proof = nil })
	return out
}

func (e *byzEngine) mutate(r *Rng, c Claim, L *Layout, pool []H, maxPos uint64) Claim {
	if len(c.Targets) == 0 {
		return c
	}
	switch r.Intn(11) {
	case 0:
		i := r.Intn(len(c.Targets))
		c.Targets[i] = uint64(r.Next() % (maxPos + 1))
		c.Mut += fmt.Sprintf("; target[%d]=%d", i, c.Targets[i])
	case 1:
		if len(c.Hashes) > 0 {
			i := r.Intn(len(c.Hashes))
			if r.Pct(30) {
				at := []int{31, 12, 11, 0, 20}[r.Intn(5)]
				c.Hashes[i][at] ^= byte(1 + r.Intn(255))
				c.Mut += fmt.Sprintf("; hash[%d] byte %d changed", i, at)
				return c
			}
			c.Hashes[i] = pool[r.Intn(len(pool))]
			c.Mut += fmt.Sprintf("; hash[%d]=pool", i)
		}
	case 2:
		if len(c.Proof) > 0 {
			j := r.Intn(len(c.Proof))
			c.Proof[j] = pool[r.Intn(len(pool))]
			c.Mut += fmt.Sprintf("; proof[%d]=pool", j)
		}
	case 3:
		i := r.Intn(len(c.Targets))
		hv := pool[r.Intn(len(pool))]
		if r.Bool() && i < len(c.Hashes) {
			hv = c.Hashes[i]
		}
		c.Targets = append(c.Targets, c.Targets[i])
		c.Hashes = append(c.Hashes, hv)
		c.Mut += fmt.Sprintf("; dup target[%d]", i)
	case 4:
		i := r.Intn(len(c.Targets))
		if ro, ok := roOfPos(c.Targets[i], L.R); ok && !L.IsRoot(ro) {
			p := ro.Parent()
			if th, ok := L.Nodes[p]; ok {
				c.Targets = append(c.Targets, p.Pos(L.R))
				c.Hashes = append(c.Hashes, th)
				c.Mut += "; nested ancestor"
			}
		}
	case 5:
		if len(c.Proof) > 0 {
			j := r.Intn(len(c.Proof))
			c.Proof = append(c.Proof[:j:j], c.Proof[j+1:]...)
			c.Mut += fmt.Sprintf("; drop proof[%d]", j)
		}
	case 6:
		if len(c.Targets) >= 2 {
			i := r.Intn(len(c.Targets) - 1)
			c.Targets[i], c.Targets[i+1] = c.Targets[i+1], c.Targets[i]
			c.Mut += "; swap targets"
		}
	case 7:
		// move a whole target to the same path in another tree (same row, offset shifted)
		i := r.Intn(len(c.Targets))
		if ro, ok := roOfPos(c.Targets[i], L.R); ok {
			t := L.RootsAt[r.Intn(len(L.RootsAt))]
			if t.R >= ro.R {
				width := uint64(1) << (t.R - ro.R)
				no := (t.O << (t.R - ro.R)) + ro.O%width
				c.Targets[i] = RO{ro.R, no}.Pos(L.R)
				c.Mut += fmt.Sprintf("; target[%d] moved to another tree", i)
			}
		}
	case 8:
		c.Proof = append(c.Proof, H{0xaa, byte(r.Next())})
		c.Mut += "; junk proof hash"
	case 9, 10:
		// a node high on a target's path becomes a target itself: either the
		// ancestor (nested) or the ancestor's sibling (then its proof hash is
		// withdrawn: the proof is truncated), with the true hash or a wrong one
		i := r.Intn(len(c.Targets))
		ro, ok := roOfPos(c.Targets[i], L.R)
		if !ok {
			break
		}
		var path []RO
		for p := ro; !L.IsRoot(p) && p.R < 64; p = p.Parent() {
			path = append(path, p)
		}
		if len(path) == 0 {
			break
		}
		a := path[r.Intn(len(path))]
		if r.Pct(70) && len(path) > 1 {
			a = path[len(path)-1-r.Intn((len(path)+1)/2)] // bias: high rows
		}
		node := a.Parent()
		what := "ancestor"
		if r.Pct(60) {
			node, what = a.Sib(), "sibling of an ancestor"
		}
		th, exists := L.Nodes[node]
		if !exists {
			break
		}
		hv := th
		withdraw := th // the proof hash that the new target makes unnecessary (sibling case)
		switch r.Intn(3) {
		case 1:
			if what == "ancestor" {
				// the ancestor claimed with its sibling's hash, and the sibling's
				// hash withdrawn from the proof: the computed ancestor and the
				// claimed one then look like the two children of the next node up
				if sh, ok := L.Nodes[node.Sib()]; ok {
					hv, withdraw = sh, sh
				}
			} else if ah, ok := L.Nodes[a]; ok {
				hv = ah
			}
		case 2:
			hv = pool[r.Intn(len(pool))]
		}
		for j := range c.Proof {
			if c.Proof[j] == withdraw {
				c.Proof = append(c.Proof[:j:j], c.Proof[j+1:]...)
				break
			}
		}
		c.Targets = append(c.Targets, node.Pos(L.R))
		c.Hashes = append(c.Hashes, hv)
		c.Mut += fmt.Sprintf("; %s (row %d) claimed as target, true hash=%v", what, node.R, hv == th)
	}
	return c
}

// extremeClaim: 64-bit extremes, length skew, oversized proofs.
func (e *byzEngine) extremeClaim(r *Rng, n uint64, base *Claim) Claim {
	rows := rowsFor(n)
	if rows > 63 {
		rows = 63
	}
	ext := []uint64{0, 1, n, n - 1, n + 1, uint64(1)<<rows - 1, uint64(1) << rows, uint64(1)<<rows + 1, uint64(2)<<rows - 2, uint64(2)<<rows - 1, uint64(2) << rows, uint64(2)<<rows + 1,
		uint64(1) << 31, uint64(1) << 32, uint64(1)<<63 - 1, uint64(1) << 63, uint64(1)<<63 + 1, ^uint64(0) - 1, ^uint64(0)}
	var c Claim
	if base != nil {
		c = base.clone()
	}
	c.Mut = "extreme"
	k := 1 + r.Intn(4)
	for i := 0; i < k; i++ {
		t := ext[r.Intn(len(ext))]
		if r.Pct(30) {
			t = r.Next()
		}
		switch {
		case base != nil && len(c.Targets) > 0 && r.Bool():
			c.Targets[r.Intn(len(c.Targets))] = t
		default:
			c.Targets = append(c.Targets, t)
			var h H
			h[0], h[1], h[9] = 0xc4, byte(i), byte(r.Next())
			if r.Pct(15) {
				h = zeroH
			}
			c.Hashes = append(c.Hashes, h)
		}
	}
	switch r.Intn(6) {
	case 0:
		c.Hashes = append(c.Hashes, H{1}) // length skew
		c.Mut += "; extra hash"
	case 1:
		if len(c.Hashes) > 0 {
			c.Hashes = c.Hashes[:len(c.Hashes)-1]
			c.Mut += "; missing hash"
		}
	case 2:
		c.Proof = nil
		c.Mut += "; empty proof"
	case 3:
		nj := 10 * (len(c.Proof) + 2)
		for j := 0; j < nj; j++ {
			c.Proof = append(c.Proof, H{0xbb, byte(j)})
		}
		c.Mut += "; oversized proof"
	}
	return c
}

// ---------------------------------------------------------------------------
// evaluation

func allNonZero(hs []H) bool {
	for _, h := range hs {
		if h == zeroH {
			return false
		}
	}
	return true
}

func (e *byzEngine) evaluate(bs *byzState, c Claim, prog *byzProgress, stats *Stats, report func(Violation, Claim, string), only string, single bool) uint64 {
	stats.OracleChecks["byz_claims"]++
	dg := uint64(len(c.Targets))<<32 ^ uint64(len(c.Proof))
	for _, t := range c.Targets {
		dg = mix64(dg ^ t)
	}
	for _, h := range c.Hashes {
		dg = mix64(dg ^ uint64(h[0])<<8 ^ uint64(h[5]))
	}
	accepted := map[string]bool{}
	for vi, ver := range byzVerifiers {
		if single && only != "" && only != ver {
			continue
		}
		// fresh copies for every call: the verifier must not be able to disturb the next one
		hashes := append([]H(nil), c.Hashes...)
		proof := u.Proof{Targets: append([]uint64(nil), c.Targets...), Proof: append([]H(nil), c.Proof...)}
		if c.EmptyNonNil {
			if len(hashes) == 0 {
				hashes = []H{}
			}
			if len(proof.Targets) == 0 {
				proof.Targets = []uint64{}
			}
			if len(proof.Proof) == 0 {
				proof.Proof = []H{}
			}
		}
		if bs.big != nil {
			for i, t := range proof.Targets {
				proof.Targets[i] = bs.big.up(t, bs.st.N)
			}
		}
		var call, recheck func() error
		var rootsOf []func() []H
		after := false
		var before u.Stump
		switch ver {
		case "Verify":
			call = func() error { _, err := u.Verify(bs.stump, hashes, proof); return err }
		case "Stump.Update":
			before = copyStump(bs.stump)
			work := copyStump(bs.stump)
			// the additions are part of the untrusted input as well
			adds := [][]H{{{0x77, 1}, {0x77, 2}}, nil, {{}}, {{0x77, 3}, {}}, {{0x77, 4}, {0x77, 4}}, {{}, {0x77, 5}, {0x77, 6}}}[addsChoice(c.Targets, len(c.Hashes), len(c.Proof))]
			call = func() error {
				_, err := work.Update(hashes, adds, proof)
				if err != nil {
					if work.NumLeaves != before.NumLeaves || !eqHashes(work.Roots, before.Roots) {
						return fmt.Errorf("ATOMICITY: %v", err)
					}
				}
				return err
			}
		case "Pollard.Verify":
			if bs.pol == nil {
				continue
			}
			call = func() error { return bs.pol.Verify(hashes, proof, false) }
		case "MapPollard.Verify":
			if bs.mpFull == nil {
				continue
			}
			call = func() error { return bs.mpFull.Verify(hashes, proof, false) }
		case "MapPollard(partial).Verify":
			if bs.mpPart2 == nil {
				continue
			}
			call = func() error { return bs.mpPart2.Verify(hashes, proof, false) }
		case "VerifyPartialProof":
			if bs.mpPart == nil {
				continue
			}
			call = func() error { return bs.mpPart.VerifyPartialProof(proof.Targets, hashes, proof.Proof, false) }
		case "VerifyPartialProof(full)":
			if bs.mpFull == nil {
				continue
			}
			call = func() error { return bs.mpFull.VerifyPartialProof(proof.Targets, hashes, proof.Proof, false) }
		case "MapPollard.Verify(remember)", "MapPollard(partial).Verify(remember)", "VerifyPartialProof(remember)":
			src := map[string]*u.MapPollard{"MapPollard.Verify(remember)": bs.mpFull, "MapPollard(partial).Verify(remember)": bs.mpPart2, "VerifyPartialProof(remember)": bs.mpPart}[ver]
			base := ver[:len(ver)-len("(remember)")]
			// every claim the plain variant accepted, and a fixed eighth of the others
			if src == nil || (!accepted[base] && !(single && only == ver) && dg%8 != 0) {
				continue
			}
			cl := cloneMapPollard(src)
			stats.OracleChecks["byz_remember_calls"]++
			rootsOf = []func() []H{src.GetRoots, cl.GetRoots}
			if ver == "VerifyPartialProof(remember)" {
				call = func() error { return cl.VerifyPartialProof(proof.Targets, hashes, proof.Proof, true) }
				recheck = func() error { return cl.VerifyPartialProof(proof.Targets, hashes, proof.Proof, false) }
			} else {
				call = func() error { return cl.Verify(hashes, proof, true) }
				recheck = func() error { return cl.Verify(hashes, proof, false) }
			}
		}
		prog.mu.Lock()
		prog.claim, prog.verifier = c, ver
		prog.mu.Unlock()
		err, panicked := guard(call)
		atomic.AddInt64(&prog.counter, 1)
		stats.OracleChecks["byz_verifier_calls"]++
		if panicked {
			report(Violation{Property: "C04", Class: "panic:" + ver, Detail: fmt.Sprintf("%s panicked on targets %v (%d hashes, %d proof hashes) [%s]: %v", ver, c.Targets, len(c.Hashes), len(c.Proof), c.Mut, err)}, c, ver)
			dg = mix64(dg ^ uint64(vi)*3)
			continue
		}
		if err != nil && len(err.Error()) > 10 && err.Error()[:10] == "ATOMICITY:" {
			report(Violation{Property: "C04", Class: "reject-not-atomic", Detail: fmt.Sprintf("a rejected Stump.Update changed the stump; targets %v [%s]", c.Targets, c.Mut)}, c, ver)
		}
		if err != nil {
			stats.Faults["msg_corrupt_rejected"]++
			if rootsOf != nil {
				if a, b := rootsOf[0](), rootsOf[1](); !eqHashes(a, b) {
					report(Violation{Property: "C03", Class: "roots-changed-by-rejected-call:" + ver, Detail: fmt.Sprintf("%s rejected the claim (targets %v, %d proof hashes) but the forest's roots changed: every later acceptance is judged against roots that no longer commit to the true forest [%s]", ver, c.Targets, len(c.Proof), c.Mut)}, c, ver)
					continue
				}
			}
			if recheck != nil {
				// a rejected remembering call must leave nothing behind that makes
				// the same claim acceptable afterwards
				stats.OracleChecks["byz_recheck_after_rejection"]++
				e2, p2 := guard(recheck)
				if p2 || e2 != nil {
					continue
				}
				err = nil
				after = true
			} else {
				continue
			}
		}
		dg = mix64(dg ^ uint64(vi+1)*0x9e37)
		accepted[ver] = true
		if c.Mut == "honest" {
			continue
		}
		stats.Faults["msg_corrupt_accepted"]++
		if bs.synth || ver == "Pollard.Verify" && len(hashes) == 0 {
			continue
		}
		// C03: accepted => every claimed fact is true
		if len(hashes) != len(proof.Targets) || !allNonZero(hashes) {
			continue
		}
		L := bs.st.Layout()
		for i, t := range c.Targets {
			th, exists := L.HashAt(t, L.R)
			if !exists {
				// map forests also read positions in the numbering of their allocated height
				var mp *u.MapPollard
				switch ver {
				case "MapPollard.Verify", "MapPollard.Verify(remember)", "VerifyPartialProof(full)":
					mp = bs.mpFull
				case "MapPollard(partial).Verify", "MapPollard(partial).Verify(remember)":
					mp = bs.mpPart2
				case "VerifyPartialProof", "VerifyPartialProof(remember)":
					mp = bs.mpPart
				}
				if mp != nil && mp.TotalRows != L.R && mp.TotalRows <= 63 {
					if ro, in := roOfPos(t, L.R); !in || !inForestRO(ro, bs.st.N) {
						th, exists = L.HashAt(t, mp.TotalRows)
					}
				}
			}
			if !exists || th != c.Hashes[i] {
				cls := classifyFalseClaim(c, L)
				what := "no node exists there"
				if exists {
					what = "the node there has another hash"
				}
				how := ver + " accepted"
				if after {
					cls = "accepted-after-rejection"
					how = ver + " first rejected the claim, but what the rejected call left behind made the plain verifier accept"
				}
				report(Violation{Property: "C03", Class: cls + ":" + ver, Detail: fmt.Sprintf("%s hash %s at position %d but %s (N=%d, targets %v, %d proof hashes) [%s]", how, short(c.Hashes[i]), t, what, bs.st.N, c.Targets, len(c.Proof), c.Mut)}, c, ver)
				break
			}
		}
	}
	return dg
}

func classifyFalseClaim(c Claim, L *Layout) string {
	seen := map[uint64]bool{}
	for _, t := range c.Targets {
		if seen[t] {
			return "dup-target"
		}
		seen[t] = true
	}
	for _, h := range c.Proof {
		if h == zeroH {
			return "zero-proof-hash"
		}
	}
	// every claimed hash is a true node hash, just somewhere else
	at := map[H]bool{}
	for _, h := range L.Nodes {
		at[h] = true
	}
	all := true
	for _, h := range c.Hashes {
		if !at[h] {
			all = false
		}
	}
	if all {
		return "misplaced-true-hash"
	}
	return "false-claim"
}

// addsChoice: which addition list accompanies a claim handed to Stump.Update —
// a function of the claim alone, so that a replay of the single claim makes
// the same call.
func addsChoice(targets []uint64, nh, np int) int {
	k := uint64(nh)*31 + uint64(np)*7 + uint64(len(targets))*131
	for _, t := range targets {
		k = mix64(k ^ t)
	}
	return int(k % 6)
}
