package main

import (
	"container/heap"
	"fmt"
	"sort"

	u "github.com/utreexo/utreexo"
)

// ---------------------------------------------------------------------------
// Chain (block tree kept by the source stub)

type Block struct {
	ID, Parent, Height int
	Seed               uint64
	Dels               []H     // deleted leaves, in the order the block lists them
	Proof              u.Proof // canonical proof on the parent state, targets in Dels order (honest message, from the model)
	Adds               []H
	Leaves             []u.Leaf // Adds as leaves, Remember=false (shared by all full nodes)
	Pre, Mid, Post     *State
}

// Options decide which oracles run and which property is being decided.
type Options struct {
	Property  string // property under check; the run stops at its first violation
	Oracles   map[string]bool
	Trace     bool // keep the full event log (otherwise only its digest)
	MaxEvents int
	Findings  *Findings
}

type Stats struct {
	Events       int                 `json:"events"`
	Blocks       int                 `json:"blocks"`
	Applies      int                 `json:"applies"`
	Undos        int                 `json:"undos"`
	SimTime      int64               `json:"sim_time"`
	Faults       map[string]int      `json:"faults"`
	Reach        map[string]int      `json:"reach"`
	OracleChecks map[string]int      `json:"oracle_checks"`
	StateKeys    map[uint64]struct{} `json:"-"`
	ShapeKeys    map[uint64]struct{} `json:"-"`
	Foreign      map[string]int      `json:"foreign"`
	Known        map[string]int      `json:"known"`
}

func NewStats() *Stats {
	return &Stats{Faults: map[string]int{}, Reach: map[string]int{}, OracleChecks: map[string]int{},
		StateKeys: map[uint64]struct{}{}, ShapeKeys: map[uint64]struct{}{}, Foreign: map[string]int{}, Known: map[string]int{}}
}

func (s *Stats) Merge(o *Stats) {
	s.Events += o.Events
	s.Blocks += o.Blocks
	s.Applies += o.Applies
	s.Undos += o.Undos
	s.SimTime += o.SimTime
	for k, v := range o.Faults {
		s.Faults[k] += v
	}
	for k, v := range o.Reach {
		s.Reach[k] += v
	}
	for k, v := range o.OracleChecks {
		s.OracleChecks[k] += v
	}
	for k, v := range o.Foreign {
		s.Foreign[k] += v
	}
	for k, v := range o.Known {
		s.Known[k] += v
	}
	for k := range o.StateKeys {
		s.StateKeys[k] = struct{}{}
	}
	for k := range o.ShapeKeys {
		s.ShapeKeys[k] = struct{}{}
	}
}

type msg struct {
	at  int64
	seq int
	to  int
	ann int
	tip int
}
type msgHeap []msg

func (h msgHeap) Len() int { return len(h) }
func (h msgHeap) Less(i, j int) bool {
	if h[i].at != h[j].at {
		return h[i].at < h[j].at
	}
	return h[i].seq < h[j].seq
}
func (h msgHeap) Swap(i, j int)       { h[i], h[j] = h[j], h[i] }
func (h *msgHeap) Push(x interface{}) { *h = append(*h, x.(msg)) }
func (h *msgHeap) Pop() interface{} {
	o := *h
	x := o[len(o)-1]
	*h = o[:len(o)-1]
	return x
}

type World struct {
	sc      *Scenario
	opt     Options
	blocks  []*Block
	tip     int
	ann     int
	now     int64
	seq     int
	q       msgHeap
	nodes   []*Node
	leafCtr uint32
	step    int
	viol    []Violation // violations of opt.Property (not known findings)
	allViol []Violation // everything, including foreign and known
	stats   *Stats
	logSum  uint64
	log     []string
	stop    bool
	fp      *fpRegistry
	inTwin  bool
	// classPrefix / classSuffix: added to the class of every violation reported
	// while set (observations made on a derived state, coincident.go)
	classPrefix, classSuffix string
}

func (w *World) logf(format string, a ...interface{}) {
	s := fmt.Sprintf(format, a...)
	for i := 0; i < len(s); i++ {
		w.logSum = (w.logSum ^ uint64(s[i])) * 1099511628211
	}
	w.logSum = mix64(w.logSum)
	if w.opt.Trace {
		w.log = append(w.log, fmt.Sprintf("[t=%d s=%d] %s", w.now, w.step, s))
	}
}

func (w *World) newLeaf() H {
	w.leafCtr++
	var h H
	c := w.leafCtr
	h[0], h[1], h[2], h[3] = byte(c), byte(c>>8), byte(c>>16), byte(c>>24)
	x := mix64(w.sc.Seed ^ uint64(c)*0x1234567)
	for i := 4; i < 32; i++ {
		if (i-4)%8 == 0 {
			x = mix64(x)
		}
		h[i] = byte(x >> (uint(i%8) * 8))
	}
	h[31] |= 1 // never the all-zero hash
	if w.sc.OddHashes {
		// unusual but legal values.  Exactly one leaf of the run starts with a long
		// run of zero bytes and one with a long run of 0xff bytes (more than one each
		// would share a 12-byte prefix, which is the known finding KF1, not the
		// point here); a third of the others END with such a run.
		oddA := uint32(1 + mix64(w.sc.Seed^0x0dd)%7)
		oddB := oddA + 1 + uint32(mix64(w.sc.Seed^0x0de)%9)
		k := 12 + int(mix64(uint64(c)^w.sc.Seed)%17) // 12..28 bytes
		switch {
		case c == oddA || c == oddB:
			fill := byte(0)
			if c == oddB {
				fill = 0xff
			}
			for i := 0; i < k; i++ {
				h[i] = fill
			}
			h[31] |= 1
		case c%3 == 0:
			fill := byte(0)
			if c%2 == 0 {
				fill = 0xff
			}
			for i := 32 - k; i < 32; i++ {
				h[i] = fill
			}
		}
	}
	if w.sc.PrefixShare {
		// distinct hashes that agree in a long prefix (still unique: the counter sits in the tail)
		x := mix64(w.sc.Seed ^ 0x5ea1)
		for i := 0; i < 27; i++ {
			if i%8 == 0 {
				x = mix64(x)
			}
			h[i] = byte(x >> (uint(i%8) * 8))
		}
		h[27], h[28], h[29], h[30], h[31] = byte(c>>24), byte(c>>16), byte(c>>8), byte(c), 1
	}
	return h
}

// Result of one simulated run.
type Result struct {
	Violations []Violation
	All        []Violation
	Stats      *Stats
	LogSum     uint64
	Log        []string
	Panic      string
}

// RunScenario executes a scenario against the real library.
func RunScenario(sc *Scenario, opt Options) (res *Result) {
	res, _ = runWorld(sc, opt)
	return res
}

// BuildWorld runs a scenario and hands back the world (used by engines that
// need the real library objects in a reached state).
func BuildWorld(sc *Scenario, opt Options) *World {
	_, w := runWorld(sc, opt)
	return w
}

func runWorld(sc *Scenario, opt Options) (res *Result, w *World) {
	w = &World{sc: sc, opt: opt, stats: NewStats()}
	if w.opt.MaxEvents == 0 {
		w.opt.MaxEvents = 4000
	}
	w.fp = newFpRegistry(w)
	res = &Result{Stats: w.stats}
	defer func() {
		if r := recover(); r != nil {
			// A panic that escaped the per-call guards is harness trouble.
			res.Panic = fmt.Sprintf("harness panic at step %d: %v", w.step, r)
		}
		res.Violations = w.viol
		res.All = w.allViol
		res.LogSum = w.logSum
		res.Log = w.log
		w.stats.SimTime = w.now
	}()
	genesis := &Block{ID: 0, Parent: -1, Height: 0, Post: NewState()}
	genesis.Pre, genesis.Mid = genesis.Post, genesis.Post
	w.blocks = []*Block{genesis}
	w.logf("seed=%d profile=%s nodes=%d steps=%d", sc.Seed, sc.Profile, len(sc.Nodes), len(sc.Steps))
	for i, nc := range sc.Nodes {
		w.nodes = append(w.nodes, w.newNode(i, nc))
	}
	for i := range sc.Steps {
		w.step = i
		w.execStep(&sc.Steps[i])
		if w.stop || w.stats.Events > w.opt.MaxEvents {
			break
		}
	}
	if !w.stop {
		w.step = len(sc.Steps)
		w.finish()
	}
	return res, w
}

func (w *World) live(id int) *State { return w.blocks[id].Post }

func (w *World) execStep(s *Step) {
	switch s.Op {
	case "block":
		w.stepBlock(s)
	case "tip":
		if len(w.blocks) > 1 {
			id := s.Pick % len(w.blocks)
			if id < 0 {
				id = -id
			}
			if id != w.tip {
				w.tip = id
				w.stats.Faults["reorg"]++
				w.logf("source: switch tip to block %d (h=%d)", id, w.blocks[id].Height)
			}
			w.announce(s.Lat)
		}
	case "hb":
		w.announce(s.Lat)
	case "tick":
		w.advance(int64(s.Dt))
	case "flush":
		w.flush()
	default:
		if s.Node >= 0 && len(w.nodes) > 0 {
			n := w.nodes[s.Node%len(w.nodes)]
			w.nodeOp(n, s)
		}
	}
}

// stepBlock: the source extends its tip with a new block.
func (w *World) stepBlock(s *Step) {
	parent := w.blocks[w.tip]
	pre := parent.Post
	live := pre.Live() // slot order
	var dels []H
	for _, p := range s.Dels {
		if len(live) == 0 {
			break
		}
		i := p % len(live)
		if i < 0 {
			i = -i
		}
		dels = append(dels, live[i])
		live = append(live[:i:i], live[i+1:]...)
	}
	// deletion order inside the message: seeded permutation
	r := SubRng(s.Seed, "delorder")
	if r.Pct(70) {
		r.Shuffle(len(dels), func(i, j int) { dels[i], dels[j] = dels[j], dels[i] })
	}
	nAdds := s.Adds
	if nAdds < 0 {
		nAdds = 0
	}
	adds := make([]H, nAdds, nAdds+2)
	leaves := make([]u.Leaf, nAdds, nAdds+2)
	// Added leaves are distinct from every live leaf.  In a fifth of the runs one
	// may repeat the hash of a deleted leaf (of this block or an earlier one).
	// What is never generated: two live leaves with the same hash, or a leaf that
	// carries the bytes of an internal node or shares a long prefix with one —
	// leaf hashes are digests and the library keys several maps by hash, so that
	// is treated like a hash collision (DESIGN.md section 10).
	ar := SubRng(s.Seed, "addkind")
	var deadPool []H
	if w.sc.ReAdd && ar.Pct(40) {
		for i, h := range pre.Leaves {
			if !pre.Alive[i] && !pre.IsLive(h) {
				deadPool = append(deadPool, h)
			}
		}
		deadPool = append(deadPool, dels...)
	}
	used := map[H]bool{}
	for i := range adds {
		h := w.newLeaf()
		if len(deadPool) > 0 && ar.Pct(30) {
			if c := deadPool[ar.Intn(len(deadPool))]; !used[c] {
				h = c // the hash of a leaf that was deleted (by this block or earlier) comes back
				w.stats.Reach["added_leaf_repeats_deleted_hash"]++
			}
		}
		if w.sc.NodeHashLeaf && ar.Pct(25) {
			if ih := pre.Layout().InternalHashes(); len(ih) > 0 {
				if c := ih[ar.Intn(len(ih))]; !used[c] && !pre.IsLive(c) {
					h = c
					w.stats.Reach["added_leaf_carries_node_hash"]++
				}
			}
		}
		used[h] = true
		adds[i] = h
		leaves[i] = u.Leaf{Hash: adds[i]}
	}
	b := &Block{ID: len(w.blocks), Parent: parent.ID, Height: parent.Height + 1, Seed: s.Seed,
		Dels: padH(dels), Adds: adds, Leaves: leaves, Pre: pre}
	b.Mid = pre.WithDels(dels)
	b.Post = b.Mid.WithAdds(adds)
	pr, ok := pre.Layout().CanonProof(b.Dels)
	if !ok {
		panic("harness: deletion of a non-live leaf generated")
	}
	pr.Targets = padU(pr.Targets)
	pr.Proof = padH(pr.Proof)
	b.Proof = pr
	w.blocks = append(w.blocks, b)
	w.tip = b.ID
	w.stats.Blocks++
	w.stats.StateKeys[b.Post.Key()] = struct{}{}
	w.stats.ShapeKeys[b.Post.ShapeKey()] = struct{}{}
	w.reachBlock(b)
	w.logf("source: block %d parent=%d h=%d dels=%d adds=%d N=%d->%d", b.ID, b.Parent, b.Height, len(dels), nAdds, pre.N, b.Post.N)
	w.announce(s.Lat)
}

// reach probes on the model side
func (w *World) reachBlock(b *Block) {
	preL, midL := b.Pre.Layout(), b.Mid.Layout()
	for i, r := range midL.Roots {
		if r == zeroH && i < len(preL.Roots) && preL.Roots[i] != zeroH {
			w.stats.Reach["whole_tree_deleted"]++
		}
	}
	if len(b.Adds) > 0 {
		for _, r := range midL.Roots {
			if r == zeroH {
				w.stats.Reach["adds_onto_empty_root"]++
				break
			}
		}
	}
	if rowsFor(b.Post.N) > rowsFor(b.Pre.N) {
		w.stats.Reach["rows_grew"]++
	}
	if len(b.Dels) > 0 && b.Mid.NumLive() == 0 {
		w.stats.Reach["all_leaves_deleted"]++
	}
	if len(b.Dels) == 0 && len(b.Adds) == 0 {
		w.stats.Reach["empty_block"]++
	}
}

// announce sends the current tip to every node with per-node latencies.
func (w *World) announce(lat []int) {
	w.ann++
	for i := range w.nodes {
		l := 1
		if i < len(lat) {
			l = lat[i]
		}
		if l == 0 {
			w.stats.Faults["msg_drop"]++
			continue
		}
		dup := false
		if l < 0 {
			l, dup = -l, true
		}
		w.seq++
		heap.Push(&w.q, msg{at: w.now + int64(l), seq: w.seq, to: i, ann: w.ann, tip: w.tip})
		if dup {
			w.seq++
			heap.Push(&w.q, msg{at: w.now + int64(2*l) + 1, seq: w.seq, to: i, ann: w.ann, tip: w.tip})
			w.stats.Faults["msg_dup"]++
		}
	}
}

func (w *World) advance(dt int64) {
	if dt < 0 {
		dt = 0
	}
	until := w.now + dt
	for w.q.Len() > 0 && w.q[0].at <= until && !w.stop {
		m := heap.Pop(&w.q).(msg)
		if m.at > w.now {
			w.now = m.at
		}
		w.deliver(m)
	}
	if until > w.now {
		w.now = until
	}
}

func (w *World) flush() {
	for w.q.Len() > 0 && !w.stop {
		m := heap.Pop(&w.q).(msg)
		if m.at > w.now {
			w.now = m.at
		}
		w.deliver(m)
	}
}

func (w *World) deliver(m msg) {
	n := w.nodes[m.to]
	if n.crashed {
		w.stats.Faults["msg_to_crashed"]++
		return
	}
	if w.now < n.partUntil {
		w.stats.Faults["msg_lost_in_partition"]++
		return
	}
	if m.ann <= n.lastAnn {
		if m.ann < n.lastAnn {
			w.stats.Faults["msg_reordered_stale"]++
		}
		return
	}
	n.lastAnn = m.ann
	n.wantTip = m.tip
	w.logf("deliver ann=%d tip=%d -> %s (at=%d)", m.ann, m.tip, n.name, n.at)
	w.syncNode(n, m.tip)
}

// finish: faults stop; every live node must reach the best tip in one
// catch-up pass and agree with the model (bounded liveness).
func (w *World) finish() {
	w.flush()
	for _, n := range w.nodes {
		if w.stop {
			return
		}
		if n.crashed {
			w.restartNode(n, 0)
		}
	}
	for _, n := range w.nodes {
		n.partUntil = 0 // faults stop: every partition heals
	}
	w.announce(nil)
	w.flush()
	for _, n := range w.nodes {
		if w.stop {
			return
		}
		if n.at != w.tip && !n.offline && !n.dead {
			panic(fmt.Sprintf("harness liveness: node %s at %d, tip %d", n.name, n.at, w.tip))
		}
	}
	w.fp.recheckAll("end-of-run")
}

// path from block a to block b: blocks to undo (newest first), blocks to apply (oldest first)
func (w *World) path(a, b int) (undo []*Block, apply []*Block) {
	x, y := w.blocks[a], w.blocks[b]
	for x.Height > y.Height {
		undo = append(undo, x)
		x = w.blocks[x.Parent]
	}
	for y.Height > x.Height {
		apply = append(apply, y)
		y = w.blocks[y.Parent]
	}
	for x.ID != y.ID {
		undo = append(undo, x)
		x = w.blocks[x.Parent]
		apply = append(apply, y)
		y = w.blocks[y.Parent]
	}
	for i, j := 0, len(apply)-1; i < j; i, j = i+1, j-1 {
		apply[i], apply[j] = apply[j], apply[i]
	}
	return
}

func (w *World) ancestorAt(id, height int) *Block {
	b := w.blocks[id]
	for b.Height > height {
		b = w.blocks[b.Parent]
	}
	return b
}

// violation bookkeeping -------------------------------------------------------

func (w *World) violate(n *Node, prop, class, detail string) {
	if w.sc.PrefixShare && n != nil && n.cfg.Kind == "pollard" {
		// the pointer forest keys its leaf map by the first 12 bytes of a hash: with
		// leaves that share a prefix it is known to go wrong (known finding KF1/KF2);
		// the class says so, and the node is not looked at again in this run
		class += "/prefix-share"
		defer func() { n.dead = true }()
	}
	class = w.classPrefix + class + w.classSuffix
	v := Violation{Property: prop, Class: class, Step: w.step, Detail: detail}
	if n != nil {
		v.Node = n.name
	}
	w.logf("VIOLATION %s class=%s node=%s %s", prop, class, v.Node, detail)
	if w.inTwin {
		return
	}
	w.allViol = append(w.allViol, v)
	if prop != w.opt.Property {
		w.stats.Foreign[prop+":"+class]++
		return
	}
	if w.opt.Findings != nil && w.opt.Findings.Matches(v) {
		w.stats.Known[prop+":"+class]++
		return
	}
	w.viol = append(w.viol, v)
	w.stop = true
}

func (w *World) on(oracle string) bool { return w.opt.Oracles == nil || w.opt.Oracles[oracle] }

func (w *World) count(oracle string) { w.stats.OracleChecks[oracle]++ }

// helpers ---------------------------------------------------------------------

// padH / padU: copies with spare capacity filled with sentinels so that an
// append into caller memory, or a write past len, is visible to fingerprints.
func padH(a []H) []H {
	out := make([]H, len(a), len(a)+2)
	copy(out, a)
	t := out[:len(a)+2]
	t[len(a)] = H{0xde, 0xad}
	t[len(a)+1] = H{0xbe, 0xef}
	return out
}

func padU(a []uint64) []uint64 {
	out := make([]uint64, len(a), len(a)+2)
	copy(out, a)
	t := out[:len(a)+2]
	t[len(a)] = 0xdeaddeaddeaddead
	t[len(a)+1] = 0xbeefbeefbeefbeef
	return out
}

func eqHashes(a, b []H) bool {
	if len(a) != len(b) {
		return false
	}
	for i := range a {
		if a[i] != b[i] {
			return false
		}
	}
	return true
}

func eqU64(a, b []uint64) bool {
	if len(a) != len(b) {
		return false
	}
	for i := range a {
		if a[i] != b[i] {
			return false
		}
	}
	return true
}

func eqProof(a, b u.Proof) bool { return eqU64(a.Targets, b.Targets) && eqHashes(a.Proof, b.Proof) }

func short(h H) string { return fmt.Sprintf("%x", h[:4]) }

func sortedKeys(m map[H]bool) []H {
	out := make([]H, 0, len(m))
	for h := range m {
		out = append(out, h)
	}
	sortH(out)
	return out
}

func sortU(a []uint64) { sort.Slice(a, func(i, j int) bool { return a[i] < a[j] }) }
