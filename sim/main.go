package main

import (
	"bytes"
	"encoding/json"
	"flag"
	"fmt"
	"os"
	"os/exec"
	"path/filepath"
	"runtime"
	"runtime/pprof"
	"sort"
	"strconv"
	"strings"
	"sync"
	"time"
)

// utxosim — deterministic simulation with fault injection for utreexo.
//
//   utxosim check <property> [-tier quick|thorough] [-budget s] [-runs n] [-workers n]
//   utxosim replay <file> [-trace]
//   utxosim selftest [-seeds n]
//   utxosim gen <profile> <seed>
//   utxosim worker ...            (internal)
//
// Exit codes: 0 held, 1 violation (line "VIOLATION property=<id> replay=<path>"),
// 2 machinery trouble (never reported as a violation).

func main() {
	if len(os.Args) < 2 {
		fmt.Fprintln(os.Stderr, "usage: utxosim check|replay|selftest|gen ...")
		os.Exit(2)
	}
	switch os.Args[1] {
	case "check":
		os.Exit(cmdCheck(os.Args[2:]))
	case "worker":
		os.Exit(cmdWorker(os.Args[2:]))
	case "replay":
		os.Exit(cmdReplay(os.Args[2:]))
	case "c12try":
		os.Exit(cmdC12Try(os.Args[2:]))
	case "selftest":
		os.Exit(cmdSelftest(os.Args[2:]))
	case "gen":
		p := profiles[os.Args[2]]
		seed, _ := strconv.ParseUint(os.Args[3], 10, 64)
		sc := Generate(p, seed)
		b, _ := json.MarshalIndent(sc, "", " ")
		fmt.Println(string(b))
	default:
		fmt.Fprintln(os.Stderr, "unknown command", os.Args[1])
		os.Exit(2)
	}
}

func baseSeed() uint64 {
	if s := os.Getenv("VERIF_SEED"); s != "" {
		if v, err := strconv.ParseUint(strings.TrimSpace(s), 10, 64); err == nil {
			return v
		}
		if v, err := strconv.ParseInt(strings.TrimSpace(s), 10, 64); err == nil {
			return uint64(v)
		}
	}
	return 20260928
}

func loadFindings() *Findings {
	f, err := LoadFindings(filepath.Join(verifDir(), "known_findings.json"))
	if err != nil {
		fmt.Fprintln(os.Stderr, "cannot load known_findings.json:", err)
		os.Exit(2)
	}
	return f
}

// ---------------------------------------------------------------------------
// worker

type WorkerViol struct {
	V      Violation `json:"v"`
	Seed   uint64    `json:"seed"`
	Replay string    `json:"replay"`
	Steps  int       `json:"steps"`
	Orig   int       `json:"orig_steps"`
}

type WorkerOut struct {
	Engine     string            `json:"engine"`
	Runs       int               `json:"runs"`
	NonTrivial int               `json:"nontrivial"`
	Digests    []uint64          `json:"digests"`
	Stats      *Stats            `json:"stats"`
	StateKeys  []uint64          `json:"state_keys"`
	ShapeKeys  []uint64          `json:"shape_keys"`
	Viol       []WorkerViol      `json:"viol"`
	Samples    []json.RawMessage `json:"samples"`
	Trouble    string            `json:"trouble"`
	WallS      float64           `json:"wall_s"`
}

func cmdWorker(args []string) int {
	fs := flag.NewFlagSet("worker", flag.ExitOnError)
	prop := fs.String("prop", "", "")
	eng := fs.String("engine", "", "")
	seed := fs.Uint64("seed", 1, "")
	idx := fs.Int("idx", 0, "")
	nw := fs.Int("n", 1, "")
	budget := fs.Float64("budget", 10, "")
	maxRuns := fs.Int("runs", 1<<30, "")
	fs.Parse(args)
	runtime.GOMAXPROCS(2)
	if pf := os.Getenv("VERIF_PPROF"); pf != "" {
		if f, err := os.Create(pf); err == nil {
			pprof.StartCPUProfile(f)
			defer pprof.StopCPUProfile()
		}
	}
	e := engineByName(*prop, *eng)
	if e == nil {
		fmt.Fprintln(os.Stderr, "no such engine")
		return 2
	}
	f := loadFindings()
	out := &WorkerOut{Engine: e.Name(), Stats: NewStats()}
	start := time.Now()
	deadline := start.Add(time.Duration(*budget * float64(time.Second)))
	digests := map[uint64]struct{}{}
	for i := *idx; i < *maxRuns && time.Now().Before(deadline); i += *nw {
		caseSeed := mix64(*seed ^ uint64(i)*0x9e3779b97f4a7c15)
		cr := runWithWatchdog(e, caseSeed, f, out)
		if cr == nil {
			break
		}
		out.Runs++
		out.Stats.Merge(cr.Stats)
		if cr.Panic != "" {
			out.Trouble = cr.Panic
			break
		}
		if cr.NonTrivial {
			out.NonTrivial++
			digests[cr.Digest] = struct{}{}
		}
		if len(out.Samples) < 2 && cr.NonTrivial && i%7 == *idx%7 {
			if b, err := json.Marshal(cr.Case); err == nil && len(b) < 6000 {
				out.Samples = append(out.Samples, b)
			}
		}
		if len(cr.Violations) > 0 {
			v := cr.Violations[0]
			orig := caseSize(cr.Case)
			min := e.Minimize(cr.Case, v.Class, f, 20*time.Second)
			// take the violation as the minimised case reports it
			raw, _ := json.Marshal(min)
			if r2, _, err := e.Replay(raw, f, false); err == nil {
				for _, v2 := range r2.Violations {
					if v2.Class == v.Class {
						v = v2
						break
					}
				}
			}
			path, err := saveReplay(e, caseSeed, v, min)
			if err != nil {
				out.Trouble = "cannot write replay: " + err.Error()
			}
			out.Viol = append(out.Viol, WorkerViol{V: v, Seed: caseSeed, Replay: path, Steps: caseSize(min), Orig: orig})
			break
		}
		if hungWorker {
			break
		}
	}
	for d := range digests {
		out.Digests = append(out.Digests, d)
	}
	for k := range out.Stats.StateKeys {
		out.StateKeys = append(out.StateKeys, k)
	}
	for k := range out.Stats.ShapeKeys {
		out.ShapeKeys = append(out.ShapeKeys, k)
	}
	out.WallS = time.Since(start).Seconds()
	b, _ := json.Marshal(out)
	os.Stdout.Write(b)
	os.Stdout.Write([]byte("\n"))
	return 0
}

func caseSize(c interface{}) int {
	switch s := c.(type) {
	case *Scenario:
		return len(s.Steps)
	case interface{ Size() int }:
		return s.Size()
	}
	return 0
}

// runWithWatchdog: a case that does not finish within the watchdog is machinery
// trouble for ordinary engines (the engines that decide liveness properties —
// C04 — have their own per-call watchdog and report a violation themselves).
func runWithWatchdog(e Engine, seed uint64, f *Findings, out *WorkerOut) *CaseResult {
	done := make(chan *CaseResult, 1)
	go func() { done <- e.Run(seed, f) }()
	// 600 ticks of half a second: a pause of the whole machine (snapshot, migration)
	// makes one tick fire early, it cannot use up the budget
	for tick := 0; tick < 600; tick++ {
		select {
		case cr := <-done:
			return cr
		case <-time.After(500 * time.Millisecond):
		}
	}
	out.Trouble = fmt.Sprintf("watchdog: case seed=%d of engine %s did not finish in 300s", seed, e.Name())
	return nil
}

// ---------------------------------------------------------------------------
// check

type tierCfg struct {
	budget  float64 // seconds per engine
	maxRuns int
}

func cmdCheck(args []string) int {
	if len(args) < 1 {
		fmt.Fprintln(os.Stderr, "usage: utxosim check <property> [-tier quick|thorough]")
		return 2
	}
	prop := args[0]
	fs := flag.NewFlagSet("check", flag.ExitOnError)
	tier := fs.String("tier", "", "")
	budget := fs.Float64("budget", 0, "seconds per engine (0 = tier default)")
	runs := fs.Int("runs", 0, "max runs per engine (0 = tier default)")
	workers := fs.Int("workers", 0, "")
	noEvidence := fs.Bool("no-evidence", false, "")
	onlyEngine := fs.String("engine", "", "run only this engine (diagnostics; implies nothing about the property as a whole)")
	fs.Parse(args[1:])
	if *tier == "" {
		*tier = os.Getenv("VERIF_TIER")
	}
	if *tier != "thorough" {
		*tier = "quick"
	}
	engines := enginesFor(prop)
	if *onlyEngine != "" {
		var es []Engine
		for _, e := range engines {
			if e.Name() == *onlyEngine {
				es = append(es, e)
			}
		}
		engines = es
	}
	if len(engines) == 0 {
		fmt.Fprintln(os.Stderr, "no engine for property", prop)
		return 2
	}
	if *workers == 0 {
		*workers = runtime.NumCPU()
		if *workers > 16 {
			*workers = 16
		}
	}
	seed := baseSeed()
	f := loadFindings()
	start := time.Now()
	fmt.Printf("utxosim check %s tier=%s VERIF_SEED=%d workers=%d engines=%d\n", prop, *tier, seed, *workers, len(engines))
	exe, _ := os.Executable()
	total := &aggregate{stats: NewStats(), digests: map[uint64]struct{}{}}
	exit := 0
	for ei, e := range engines {
		tc := tierFor(prop, e.Name(), *tier)
		if *budget > 0 {
			tc.budget = *budget
		}
		if *runs > 0 {
			tc.maxRuns = *runs
		}
		workerExe := exe
		var extraEnv []string
		if we, ok := e.(interface{ WorkerExe() string }); ok && we.WorkerExe() != "" {
			workerExe = filepath.Join(filepath.Dir(exe), we.WorkerExe())
			if _, err := os.Stat(workerExe); err != nil {
				fmt.Printf("NOTE: engine %s skipped: %s is not built (the race detector needs cgo and a C compiler)\n", e.Name(), workerExe)
				continue
			}
			dir, err := os.MkdirTemp("", "utxosim-race-")
			if err != nil {
				fmt.Println("TROUBLE:", err)
				exit = max2(exit, 2)
				continue
			}
			defer os.RemoveAll(dir)
			extraEnv = append(extraEnv, "GORACE=log_path="+filepath.Join(dir, "race")+" halt_on_error=0 exitcode=0")
		}
		outs := make([]*WorkerOut, *workers)
		errs := make([]string, *workers)
		var wg sync.WaitGroup
		for wi := 0; wi < *workers; wi++ {
			wg.Add(1)
			go func(wi int) {
				defer wg.Done()
				cmd := exec.Command(workerExe, "worker", "-prop", prop, "-engine", e.Name(), "-seed", fmt.Sprint(mix64(seed^uint64(ei+1)*0x517cc1b727220a95)),
					"-idx", fmt.Sprint(wi), "-n", fmt.Sprint(*workers), "-budget", fmt.Sprint(tc.budget), "-runs", fmt.Sprint(tc.maxRuns))
				cmd.Env = append(append(os.Environ(), "VERIF_DIR="+verifDir()), extraEnv...)
				if *tier == "thorough" {
					// blocks with 65536+ additions (seconds per case) only in the thorough tier
					cmd.Env = append(cmd.Env, "VERIF_HUGE=1")
				}
				var so, se bytes.Buffer
				cmd.Stdout, cmd.Stderr = &so, &se
				done := make(chan error, 1)
				if err := cmd.Start(); err != nil {
					errs[wi] = err.Error()
					return
				}
				go func() { done <- cmd.Wait() }()
				select {
				case err := <-done:
					if err != nil {
						errs[wi] = fmt.Sprintf("worker %d: %v: %s", wi, err, tail(se.String(), 2000))
						return
					}
				case <-time.After(time.Duration((tc.budget+300)*float64(time.Second)) + 2*time.Minute):
					cmd.Process.Kill()
					errs[wi] = fmt.Sprintf("worker %d: killed by the parent watchdog", wi)
					return
				}
				var wo WorkerOut
				line := so.Bytes()
				if i := bytes.LastIndexByte(bytes.TrimRight(line, "\n"), '\n'); i >= 0 {
					line = line[i+1:]
				}
				if err := json.Unmarshal(line, &wo); err != nil {
					errs[wi] = fmt.Sprintf("worker %d: bad output: %v: %s", wi, err, tail(so.String(), 500))
					return
				}
				outs[wi] = &wo
			}(wi)
		}
		wg.Wait()
		for wi := range outs {
			if errs[wi] != "" {
				fmt.Println("TROUBLE:", errs[wi])
				exit = max2(exit, 2)
				continue
			}
			wo := outs[wi]
			if wo.Trouble != "" {
				fmt.Println("TROUBLE:", wo.Trouble)
				exit = max2(exit, 2)
			}
			total.add(e, wo)
		}
	}
	// violations: confirm each replay in a fresh process
	sort.Slice(total.viol, func(i, j int) bool { return total.viol[i].Replay < total.viol[j].Replay })
	seenClass := map[string]bool{}
	for _, v := range total.viol {
		key := v.V.Class
		if seenClass[key] && len(seenClass) > 0 {
			continue
		}
		seenClass[key] = true
		// Replay in a fresh process.  The library iterates over Go maps in places
		// (the shipped NodesMap.ForEach, moveUpDescendants); on a correct tree the
		// outcome does not depend on that order, but a defect may, and then a replay
		// can run clean.  Such a case is replayed up to 24 times: a violation seen
		// in the search and again in a fresh process is real and is reported with
		// the count; one that never comes back stays machinery trouble (exit 2).
		code, tries := 0, 0
		var outb []byte
		for tries < 24 {
			tries++
			cmd := exec.Command(exe, "replay", v.Replay)
			cmd.Env = append(os.Environ(), "VERIF_DIR="+verifDir())
			var err error
			outb, err = cmd.CombinedOutput()
			code = 0
			if ee, ok := err.(*exec.ExitError); ok {
				code = ee.ExitCode()
			}
			if code != 2 || !strings.Contains(string(outb), "not reproduced") {
				break
			}
		}
		if code != 1 {
			fmt.Printf("TROUBLE: replay of %s did not reproduce the violation in %d tries (exit %d): %s\n", v.Replay, tries, code, tail(string(outb), 600))
			exit = max2(exit, 2)
			delete(seenClass, key) // another case of the same class may replay
			continue
		}
		if tries > 1 {
			fmt.Printf("note: %s reproduced at the %d. replay: the outcome depends on map iteration order inside the library\n", v.Replay, tries)
		}
		fmt.Printf("violation: property=%s class=%s node=%s step=%d minimised to %d steps (from %d): %s\n", v.V.Property, v.V.Class, v.V.Node, v.V.Step, v.Steps, v.Orig, v.V.Detail)
		fmt.Printf("VIOLATION property=%s replay=%s\n", prop, v.Replay)
		exit = 1
		total.confirmed++
	}
	if total.confirmed > 0 {
		exit = 1 // a violation confirmed by a fresh-process replay stands, whatever else went wrong
	}
	for _, fd := range f.OpenFor(prop) {
		hits := 0
		for k, n := range total.stats.Known {
			if strings.HasPrefix(k, prop+":") && fd.reClass.MatchString(strings.TrimPrefix(k, prop+":")) {
				hits += n
			}
		}
		fmt.Printf("KNOWN-FINDING: property=%s %s [%s; reproduced %d times in this run]\n", prop, fd.What, fd.ID, hits)
	}
	wall := time.Since(start).Seconds()
	if !*noEvidence {
		if err := writeEvidence(prop, *tier, seed, engines, total, wall); err != nil {
			fmt.Println("TROUBLE: cannot write evidence:", err)
			exit = max2(exit, 2)
		}
	}
	if exit == 0 && total.nontrivial < 2 {
		fmt.Println("TROUBLE: fewer than 2 non-trivial cases were explored")
		exit = 2
	}
	fmt.Printf("%s: runs=%d nontrivial=%d distinct=%d events=%d wall=%.1fs exit=%d\n", prop, total.runs, total.nontrivial, len(total.digests), total.stats.Events, wall, exit)
	return exit
}

func max2(a, b int) int {
	if a == 1 || b == 1 {
		return 1
	}
	if a > b {
		return a
	}
	return b
}

func tail(s string, n int) string {
	if len(s) > n {
		return "..." + s[len(s)-n:]
	}
	return s
}

type aggregate struct {
	runs, nontrivial, confirmed int
	stats                      *Stats
	digests                    map[uint64]struct{}
	viol                       []WorkerViol
	samples                    []json.RawMessage
	perEngine                  []engineSummary
}

type engineSummary struct {
	Name       string  `json:"engine"`
	Runs       int     `json:"runs"`
	NonTrivial int     `json:"nontrivial"`
	WallS      float64 `json:"wall_s"`
}

func (a *aggregate) add(e Engine, wo *WorkerOut) {
	a.runs += wo.Runs
	a.nontrivial += wo.NonTrivial
	a.stats.Merge(wo.Stats)
	for _, k := range wo.StateKeys {
		a.stats.StateKeys[k] = struct{}{}
	}
	for _, k := range wo.ShapeKeys {
		a.stats.ShapeKeys[k] = struct{}{}
	}
	for _, d := range wo.Digests {
		a.digests[d^mix64(uint64(len(e.Name())))] = struct{}{}
	}
	a.viol = append(a.viol, wo.Viol...)
	if len(a.samples) < 3 {
		a.samples = append(a.samples, wo.Samples...)
	}
	found := false
	for i := range a.perEngine {
		if a.perEngine[i].Name == e.Name() {
			a.perEngine[i].Runs += wo.Runs
			a.perEngine[i].NonTrivial += wo.NonTrivial
			if wo.WallS > a.perEngine[i].WallS {
				a.perEngine[i].WallS = wo.WallS
			}
			found = true
		}
	}
	if !found {
		a.perEngine = append(a.perEngine, engineSummary{e.Name(), wo.Runs, wo.NonTrivial, wo.WallS})
	}
}

// tierFor: per-engine budgets.
func tierFor(prop, engine, tier string) tierCfg {
	if tier == "thorough" {
		tc := tierCfg{budget: 420, maxRuns: 1 << 30}
		if b := os.Getenv("VERIF_THOROUGH_BUDGET"); b != "" {
			if v, err := strconv.ParseFloat(b, 64); err == nil {
				tc.budget = v
			}
		}
		return tc
	}
	tc := tierCfg{budget: 18, maxRuns: 1 << 30}
	if n := len(enginesFor(prop)); n > 1 {
		tc.budget = 24 / float64(n)
		if tc.budget < 8 {
			tc.budget = 8
		}
	}
	return tc
}

// ---------------------------------------------------------------------------
// replay

func cmdReplay(args []string) int {
	if len(args) < 1 {
		fmt.Fprintln(os.Stderr, "usage: utxosim replay <file> [-trace]")
		return 2
	}
	trace := len(args) > 1 && args[1] == "-trace"
	if pf := os.Getenv("VERIF_PPROF"); pf != "" {
		if f, err := os.Create(pf); err == nil {
			pprof.StartCPUProfile(f)
			defer pprof.StopCPUProfile()
		}
	}
	b, err := os.ReadFile(args[0])
	if err != nil {
		fmt.Fprintln(os.Stderr, err)
		return 2
	}
	var rf ReplayFile
	if err := json.Unmarshal(b, &rf); err != nil {
		fmt.Fprintln(os.Stderr, "bad replay file:", err)
		return 2
	}
	e := engineByName(rf.Property, rf.Engine)
	if e == nil {
		fmt.Fprintln(os.Stderr, "unknown engine", rf.Engine)
		return 2
	}
	if we, ok := e.(interface{ WorkerExe() string }); ok && we.WorkerExe() != "" && !raceEnabled {
		// this case needs the race build: hand the replay to it
		exe, _ := os.Executable()
		rexe := filepath.Join(filepath.Dir(exe), we.WorkerExe())
		dir, err := os.MkdirTemp("", "utxosim-race-")
		if err != nil {
			fmt.Fprintln(os.Stderr, err)
			return 2
		}
		defer os.RemoveAll(dir)
		cmd := exec.Command(rexe, append([]string{"replay"}, args...)...)
		cmd.Env = append(os.Environ(), "VERIF_DIR="+verifDir(), "GORACE=log_path="+filepath.Join(dir, "race")+" halt_on_error=0 exitcode=0")
		cmd.Stdout, cmd.Stderr = os.Stdout, os.Stderr
		if err := cmd.Run(); err != nil {
			if ee, ok := err.(*exec.ExitError); ok {
				return ee.ExitCode()
			}
			fmt.Fprintln(os.Stderr, "cannot run the race build:", err)
			return 2
		}
		return 0
	}
	f := loadFindings()
	cr, log, err := e.Replay(rf.Case, f, trace)
	if err != nil {
		fmt.Fprintln(os.Stderr, err)
		return 2
	}
	for _, l := range log {
		fmt.Println(l)
	}
	if cr.Panic != "" {
		fmt.Println("TROUBLE:", cr.Panic)
		return 2
	}
	for _, v := range cr.Violations {
		if v.Class == rf.Class {
			fmt.Printf("reproduced: property=%s class=%s node=%s step=%d: %s\n", v.Property, v.Class, v.Node, v.Step, v.Detail)
			fmt.Printf("VIOLATION property=%s replay=%s\n", rf.Property, args[0])
			return 1
		}
	}
	if len(cr.Violations) > 0 {
		v := cr.Violations[0]
		fmt.Printf("a different violation was observed: property=%s class=%s (expected class %s): %s\n", v.Property, v.Class, rf.Class, v.Detail)
		fmt.Printf("VIOLATION property=%s replay=%s\n", rf.Property, args[0])
		return 1
	}
	fmt.Println("not reproduced: the stored case runs clean on this tree")
	return 2
}

// ---------------------------------------------------------------------------
// selftest: determinism.  Each seed is executed in several fresh processes at
// different GOMAXPROCS; event-log digests must agree.

func cmdSelftest(args []string) int {
	fs := flag.NewFlagSet("selftest", flag.ExitOnError)
	seeds := fs.Int("seeds", 40, "")
	props := fs.String("props", "C01,C02,C03,C04,C05,C06,C07,C08,C09,C10,C11,C12,C13,C14,C17", "")
	child := fs.Bool("child", false, "")
	fs.Parse(args)
	if *child {
		f := loadFindings()
		for _, p := range strings.Split(*props, ",") {
			for _, e := range enginesFor(p) {
				for i := 0; i < *seeds; i++ {
					cr := e.Run(mix64(uint64(i)*77+5), f)
					fmt.Printf("%s %s %d %016x %d\n", p, e.Name(), i, cr.Digest, len(cr.Violations))
					for _, v := range cr.Violations {
						fmt.Printf("  violation %s %s: %s\n", v.Property, v.Class, v.Detail)
					}
				}
			}
		}
		return 0
	}
	exe, _ := os.Executable()
	var ref string
	bad := 0
	n := 0
	for _, procs := range []string{"1", "4", "16", "1", "16", "4"} {
		cmd := exec.Command(exe, "selftest", "-child", "-seeds", fmt.Sprint(*seeds), "-props", *props)
		cmd.Env = append(os.Environ(), "GOMAXPROCS="+procs, "VERIF_DIR="+verifDir())
		out, err := cmd.Output()
		if err != nil {
			fmt.Println("TROUBLE: child failed:", err)
			return 2
		}
		n++
		if ref == "" {
			ref = string(out)
			continue
		}
		if string(out) != ref {
			bad++
			a, b := strings.Split(ref, "\n"), strings.Split(string(out), "\n")
			for i := range a {
				if i < len(b) && a[i] != b[i] {
					fmt.Printf("DIVERGENCE (GOMAXPROCS=%s): %q vs %q\n", procs, a[i], b[i])
					break
				}
			}
		}
	}
	lines := strings.Count(ref, "\n")
	fmt.Printf("selftest: %d cases x %d processes, %d divergent processes\n", lines, n, bad)
	if bad > 0 {
		return 2
	}
	return 0
}
