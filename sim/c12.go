package main

import (
	"bytes"
	"encoding/hex"
	"encoding/json"
	"fmt"
	"io"
	"os"
	"os/exec"
	"path/filepath"
	"runtime"
	"sort"
	"strings"
	"sync"
	"sync/atomic"
	"time"

	"github.com/anishathalye/porcupine"
	u "github.com/utreexo/utreexo"
)

// C12: the map forest under concurrent callers.
//
// One shared MapPollard; one writer task executing a seeded script of
// Modify / Undo / Verify(remember) / Ingest / Prune / Read; 1-4 reader tasks
// issuing seeded queries.  All tasks are real goroutines under the seeded
// cooperative scheduler of sched.go; park points inside the library's critical
// sections come from the storage seam (MapPollard.Nodes / CachedLeaves are
// interface-typed exported fields) and from the io.Writer / io.Reader handed
// to Write / Read.  The library's RWMutex is never modelled.
//
// Sequential specification: a second, private instance (the shadow) executes
// the writer script alone; after every writer step the whole query pool is
// evaluated on it.  A[k][q] is the answer to query q in the state between
// writer steps k and k+1.
//
// Oracles: (a) every observed answer must equal A[k][q] for a k inside the
// window the call overlapped, and the whole history must be linearizable
// (porcupine); (b) mutual exclusion: no task may touch a storage map between
// two accesses of another task's critical section when one of the two writes
// it; (c) no panic that the sequential run does not show, no deadlock.

type C12Op struct {
	Kind  string `json:"k"`
	Dels  []int  `json:"dels,omitempty"`
	Adds  int    `json:"adds,omitempty"`
	Seed  uint64 `json:"seed,omitempty"`
	Picks []int  `json:"picks,omitempty"`
	Arg   int    `json:"arg,omitempty"`
}

type C12Case struct {
	Seed     uint64  `json:"seed"`
	Full     bool    `json:"full"`
	Rows     int     `json:"rows"`           // -1 library default (63)
	Boot     bool    `json:"boot,omitempty"` // the shared instance starts empty; writer step 0 is Read(snapshot of the setup history)
	Setup    []C12Op `json:"setup"`
	Writer   []C12Op `json:"writer"`
	Pool     []C12Op `json:"pool"`
	Readers  [][]int `json:"readers"` // indices into Pool
	Density  int     `json:"park_density"`
	ParkSeed uint64  `json:"park_seed"`
	Picks    []int   `json:"picks"` // schedule: index into the sorted runnable set at each step
	Strategy string  `json:"strategy,omitempty"`
}

func (c *C12Case) Size() int {
	n := len(c.Setup) + len(c.Writer) + len(c.Picks)
	for _, r := range c.Readers {
		n += len(r)
	}
	return n
}

func (c *C12Case) clone() *C12Case {
	b, _ := json.Marshal(c)
	var d C12Case
	json.Unmarshal(b, &d)
	return &d
}

// ---------------------------------------------------------------------------
// plan: concrete arguments, sequential specification

type c12Concrete struct {
	kind    string
	hashes  []H
	proof   u.Proof
	leaves  []u.Leaf
	numAdds uint64
	prev    []H
	data    []byte
	targets []uint64
	pos     uint64
	phashes []H
	skip    bool
}

type c12Plan struct {
	c       *C12Case
	states  []*State // model state after k writer steps
	wops    []c12Concrete
	queries []c12Concrete
	W       []string   // sequential result of writer step k
	A       [][]string // A[k][q]
	trouble string
	hang    string // a call on the private shadow instance, run alone, did not return
	seqWrong string // an answer of the shadow (single caller) that is wrong for the model state
}

func c12NewForest(c *C12Case, park *c12Exec) *u.MapPollard {
	m := u.NewMapPollard(c.Full)
	if c.Rows >= 0 {
		m.TotalRows = uint8(c.Rows)
	}
	dn, dc := newDetNodes(mix64(c.Seed^0xa1)), newDetCached(mix64(c.Seed^0xb2))
	if park != nil {
		m.Nodes = &parkNodes{inner: dn, e: park}
		m.CachedLeaves = &parkCached{inner: dc, e: park}
	} else {
		m.Nodes, m.CachedLeaves = dn, dc
	}
	return &m
}

func c12Leaf(seed uint64, ctr int) H {
	var h H
	x := mix64(seed ^ uint64(ctr)*0x7f4a7c15)
	for i := 0; i < 32; i++ {
		if i%8 == 0 {
			x = mix64(x)
		}
		h[i] = byte(x >> (uint(i%8) * 8))
	}
	h[0], h[1] = byte(ctr), byte(ctr>>8)
	h[31] |= 1
	return h
}

func resolveDels(st *State, picks []int) []H {
	live := st.Live()
	var dels []H
	for _, p := range picks {
		if len(live) == 0 {
			break
		}
		i := p % len(live)
		if i < 0 {
			i = -i
		}
		dels = append(dels, live[i])
		live = append(live[:i:i], live[i+1:]...)
	}
	return dels
}

func pickFrom(pool []H, picks []int) []H {
	if len(pool) == 0 {
		return nil
	}
	seen := map[H]bool{}
	var out []H
	for _, p := range picks {
		if p < 0 {
			p = -p
		}
		h := pool[p%len(pool)]
		if !seen[h] {
			seen[h] = true
			out = append(out, h)
		}
	}
	return out
}

type undoRec struct {
	numAdds uint64
	proof   u.Proof
	dels    []H
	prev    []H
	pre     *State
}

// buildPlan resolves the case against the model, runs the shadow sequentially
// and fills W and A.  It returns the forest-independent data the concurrent
// run needs.
func buildPlan(c *C12Case) *c12Plan {
	p := &c12Plan{c: c}
	shadow := c12NewForest(c, nil)
	st := NewState()
	ctr := 0
	newLeaves := func(n int, seed uint64) ([]H, []u.Leaf) {
		r := SubRng(seed, "c12rem")
		mode := r.Intn(4)
		hs := make([]H, n)
		ls := make([]u.Leaf, n)
		for i := range hs {
			ctr++
			hs[i] = c12Leaf(c.Seed, ctr)
			rem := false
			switch mode {
			case 1:
				rem = true
			case 2:
				rem = r.Pct(50)
			case 3:
				rem = i == n-1
			}
			ls[i] = u.Leaf{Hash: hs[i], Remember: rem}
		}
		return hs, ls
	}
	var stack []undoRec
	// setup: sequential pre-history applied to both instances before any task exists
	var setupOps []c12Concrete
	for _, op := range c.Setup {
		dels := resolveDels(st, op.Dels)
		pr, _ := st.Layout().CanonProof(dels)
		adds, leaves := newLeaves(op.Adds, op.Seed)
		co := c12Concrete{kind: "modify", hashes: dels, proof: pr, leaves: leaves}
		if !c.Full && len(dels) > 0 {
			setupOps = append(setupOps, c12Concrete{kind: "verifyrem", hashes: dels, proof: pr})
		}
		setupOps = append(setupOps, co)
		st = st.WithDels(dels).WithAdds(adds)
	}
	donor := shadow
	if c.Boot {
		donor = c12NewForest(c, nil)
	}
	for _, co := range setupOps {
		if r := execWriter(donor, co, nil); strings.HasPrefix(r, "panic") || strings.HasPrefix(r, "err") {
			p.trouble = "setup: " + r
			return p
		}
	}
	bootData := c12Snapshot(donor)
	bootState := st
	if c.Boot {
		setupOps = nil
		st = NewState()
	}
	p.states = []*State{st}
	var wops []c12Concrete
	for _, op := range c.Writer {
		cur := p.states[len(p.states)-1]
		co := c12Concrete{kind: op.Kind}
		next := cur
		switch op.Kind {
		case "modify":
			dels := resolveDels(cur, op.Dels)
			pr, _ := cur.Layout().CanonProof(dels)
			adds, leaves := newLeaves(op.Adds, op.Seed)
			co.hashes, co.proof, co.leaves = dels, pr, leaves
			next = cur.WithDels(dels).WithAdds(adds)
			stack = append(stack, undoRec{numAdds: uint64(len(adds)), proof: pr, dels: dels, prev: append([]H(nil), cur.Layout().Roots...), pre: cur})
		case "undo":
			if len(stack) == 0 {
				co.skip = true
				break
			}
			ur := stack[len(stack)-1]
			stack = stack[:len(stack)-1]
			co.numAdds, co.proof, co.hashes, co.prev = ur.numAdds, ur.proof, ur.dels, ur.prev
			next = ur.pre
		case "verifyrem", "ingest":
			hs := resolveDels(cur, op.Picks)
			if len(hs) == 0 {
				co.skip = true
				break
			}
			pr, _ := cur.Layout().CanonProof(hs)
			co.hashes, co.proof = hs, pr
		case "prune":
			co.hashes = resolveDels(cur, op.Picks)
		case "read":
			// Read is exercised the way it is meant to be used: the first writer
			// step of a freshly created (empty) shared instance.
			if !c.Boot || len(wops) != 0 {
				co.skip = true
				break
			}
			co.data = bootData
			next = bootState
		default:
			co.skip = true
		}
		if co.skip {
			co.kind = "noop"
		}
		wops = append(wops, co)
		p.states = append(p.states, next)
	}
	// query pool
	K := len(wops)
	for _, q := range c.Pool {
		p.queries = append(p.queries, p.resolveQuery(q, K))
	}
	// sequential run of the shadow: A[0], then W[k], A[k+1]
	evalPool := func() []string {
		out := make([]string, len(p.queries))
		for i, q := range p.queries {
			q := q
			out[i] = shadowWD(p, "query "+q.kind, func() string { return execQuery(shadow, q, nil) })
		}
		return out
	}
	// vpartial queries need the shadow's view of what is missing at their state; resolve lazily below
	p.A = append(p.A, nil)
	for k := 0; k <= K; k++ {
		for qi := range p.queries {
			q := &p.queries[qi]
			if q.kind == "vpartial" && int(q.pos) == k {
				var miss []uint64
				shadowWD(p, "GetMissingPositions", func() string { miss = shadow.GetMissingPositions(q.targets); return "" })
				L := p.states[k].Layout()
				q.phashes = nil
				for _, mp := range miss {
					h, _ := L.HashAt(mp, L.R)
					q.phashes = append(q.phashes, h)
				}
			}
		}
		if k == K {
			break
		}
		co := wops[k]
		p.W = append(p.W, shadowWD(p, "writer step "+co.kind, func() string { return execWriter(shadow, co, nil) }))
	}
	// second sequential pass with all arguments fixed: fresh shadow
	shadow = c12NewForest(c, nil)
	for _, co := range setupOps {
		execWriter(shadow, co, nil)
	}
	p.A = p.A[:0]
	p.W = p.W[:0]
	p.A = append(p.A, evalPool())
	for k := 0; k < K && p.hang == ""; k++ {
		co := wops[k]
		p.W = append(p.W, shadowWD(p, "writer step "+co.kind+" (after the query pool was evaluated on the same instance)", func() string { return execWriter(shadow, co, nil) }))
		p.A = append(p.A, evalPool())
	}
	p.wops = append(setupOps, wops...)
	p.checkShadowTruth(K)
	return p
}

// checkShadowTruth: C12 says every query returns a result that is correct for
// a whole-block state.  Linearizability against the shadow decides "for a
// whole-block state"; this decides "correct" for the answers whose truth the
// reference model gives without further assumptions: leaf count, roots,
// verifier snapshot on every forest, and on full forests (which track every
// leaf) leaf positions and proofs.  Only states reached through writer steps
// that all succeeded are judged.
func (p *c12Plan) checkShadowTruth(K int) {
	for k := 0; k <= K && k < len(p.A) && p.seqWrong == ""; k++ {
		if k > 0 && p.W[k-1] != "ok" && !strings.HasPrefix(p.W[k-1], "ok/") {
			return
		}
		st := p.states[k]
		L := st.Layout()
		for qi, q := range p.queries {
			want, judged := "", true
			switch q.kind {
			case "numleaves":
				want = fmt.Sprint(st.N)
			case "roots":
				want = hexs(L.Roots)
			case "stump":
				want = fmt.Sprintf("%d:%s", st.N, hexs(L.Roots))
			case "leafpos":
				if !p.c.Full {
					judged = false
					break
				}
				if ro, ok := L.LeafAt[q.hashes[0]]; ok {
					want = fmt.Sprintf("%d:%v", ro.Pos(L.R), true)
				} else {
					want = "0:false"
				}
			case "prove":
				if !p.c.Full || len(q.hashes) == 0 || st.N <= 1 {
					judged = false
					break
				}
				pr, ok := L.CanonProof(q.hashes)
				if !ok {
					judged = false // some requested leaf is not live in this state: the error text is not specified
					break
				}
				want = fmt.Sprintf("%v:%v:%s", false, pr.Targets, hexs(pr.Proof))
			default:
				judged = false
			}
			if judged && p.A[k][qi] != want {
				p.seqWrong = fmt.Sprintf("query %s in the state after %d writer steps: a single caller gets %s, the state's true answer is %s", q.kind, k, clip(p.A[k][qi], 70), clip(want, 70))
				return
			}
		}
	}
}

func c12Snapshot(m *u.MapPollard) []byte {
	var b bytes.Buffer
	guard(func() error { _, e := m.Write(&b); return e })
	return b.Bytes()
}

func (p *c12Plan) resolveQuery(q C12Op, K int) c12Concrete {
	co := c12Concrete{kind: q.Kind}
	j := q.Arg
	if j < 0 {
		j = -j
	}
	j %= K + 1
	st := p.states[j]
	live := st.Live()
	switch q.Kind {
	case "prove", "leafposs":
		co.hashes = pickFrom(live, q.Picks)
		if q.Kind == "leafposs" && len(q.Picks) > 0 && q.Picks[0]%3 == 0 {
			co.hashes = append(co.hashes, c12Leaf(p.c.Seed^0xdead, 1))
		}
		if q.Kind == "leafposs" && len(q.Picks) > 1 && q.Picks[1]%8 == 3 {
			// an unusually long request (300 hashes: leaves of every state of the
			// case, repeated, and fresh ones)
			var pool []H
			for _, s := range p.states {
				pool = append(pool, s.Live()...)
			}
			pool = append(pool, c12Leaf(p.c.Seed^0xdead, 4))
			for i := 0; len(co.hashes) < 300; i++ {
				co.hashes = append(co.hashes, pool[(i*7+q.Picks[1])%len(pool)])
			}
		}
	case "prunenoop":
		co.hashes = []H{c12Leaf(p.c.Seed^0xdead, 5)}
		if len(q.Picks) > 0 && q.Picks[0]%3 == 0 {
			co.hashes = nil
		}
	case "verify", "verifyrem":
		co.hashes = pickFrom(live, q.Picks)
		co.proof, _ = st.Layout().CanonProof(co.hashes)
	case "vpartial":
		co.hashes = pickFrom(live, q.Picks)
		pr, _ := st.Layout().CanonProof(co.hashes)
		co.targets = pr.Targets
		co.pos = uint64(j)
	case "missing":
		hs := pickFrom(live, q.Picks)
		pr, _ := st.Layout().CanonProof(hs)
		co.targets = pr.Targets
	case "leafpos":
		// a leaf live in some state, an internal hash, or a fresh hash
		switch {
		case len(q.Picks) > 0 && q.Picks[0]%7 == 0:
			ih := st.Layout().InternalHashes()
			if len(ih) > 0 {
				co.hashes = []H{ih[q.Picks[0]/7%len(ih)]}
			} else {
				co.hashes = []H{c12Leaf(p.c.Seed^0xdead, 2)}
			}
		default:
			co.hashes = pickFrom(live, q.Picks[:minInt(1, len(q.Picks))])
			if len(co.hashes) == 0 {
				co.hashes = []H{c12Leaf(p.c.Seed^0xdead, 3)}
			}
		}
	case "gethash":
		max := uint64(4)
		for _, s := range p.states {
			if m := uint64(2)<<rowsFor(s.N) + 3; m > max {
				max = m
			}
		}
		pk := 0
		if len(q.Picks) > 0 {
			pk = q.Picks[0]
		}
		if pk < 0 {
			pk = -pk
		}
		if len(live) > 0 && pk%2 == 0 {
			// the position of a live leaf or one of its ancestors in state j, in the
			// numbering of the allocated height
			L := st.Layout()
			ro := L.LeafAt[live[pk/2%len(live)]]
			for up := pk / 64 % 3; up > 0 && !L.IsRoot(ro); up-- {
				ro = ro.Parent()
			}
			rows := L.R
			if p.c.Rows < 0 {
				rows = 63
			} else if uint8(p.c.Rows) > rows {
				rows = uint8(p.c.Rows)
			}
			co.pos = ro.Pos(rows)
		} else {
			co.pos = uint64(pk) % max
		}
	}
	return co
}

func minInt(a, b int) int {
	if a < b {
		return a
	}
	return b
}

// ---------------------------------------------------------------------------
// executing one call (shared by the shadow and the concurrent run)

type c12IO struct{ e *c12Exec }

func hexs(hs []H) string {
	var b strings.Builder
	for _, h := range hs {
		b.WriteString(hex.EncodeToString(h[:6]))
		b.WriteByte(',')
	}
	return b.String()
}

func errStr(err error, panicked bool) string {
	switch {
	case panicked:
		return "panic"
	case err != nil:
		return "err"
	}
	return "ok"
}

// shadowWD runs one call of the sequential (shadow) execution under a
// watchdog: the shadow runs alone, so a call that does not return is a
// deadlock of the library with itself (for example a lock leaked by an
// earlier call).  The stuck goroutine is abandoned; the worker retires.
func shadowWD(p *c12Plan, what string, f func() string) string {
	if p.hang != "" {
		return "hang"
	}
	ch := make(chan string, 1)
	go func() { ch <- f() }()
	// 80 ticks of 100 ms (robust against a pause of the whole machine)
	for tick := 0; tick < 80; tick++ {
		select {
		case r := <-ch:
			return r
		case <-time.After(100 * time.Millisecond):
		}
	}
	p.hang = what
	hungWorker = true
	return "hang"
}

func execWriter(m *u.MapPollard, co c12Concrete, e *c12Exec) string {
	var err error
	var pan bool
	switch co.kind {
	case "noop":
		return "ok"
	case "modify":
		err, pan = guard(func() error { return m.Modify(co.leaves, co.hashes, co.proof) })
	case "undo":
		err, pan = guard(func() error { return m.Undo(co.numAdds, co.proof, co.hashes, co.prev) })
	case "verifyrem":
		err, pan = guard(func() error { return m.Verify(co.hashes, co.proof, true) })
	case "ingest":
		err, pan = guard(func() error { return m.Ingest(co.hashes, co.proof) })
	case "prune":
		err, pan = guard(func() error { return m.Prune(co.hashes) })
	case "read":
		var rd io.Reader = bytes.NewReader(co.data)
		if e != nil {
			rd = &parkReader{r: rd, e: e}
		}
		var n int
		err, pan = guard(func() error { var e2 error; n, e2 = m.Read(rd); return e2 })
		return fmt.Sprintf("%s/%d", errStr(err, pan), n)
	}
	return errStr(err, pan)
}

func execQuery(m *u.MapPollard, q c12Concrete, e *c12Exec) string {
	var out string
	err, pan := guard(func() error {
		switch q.kind {
		case "roots":
			out = hexs(m.GetRoots())
		case "stump":
			s := m.GetStump()
			out = fmt.Sprintf("%d:%s", s.NumLeaves, hexs(s.Roots))
		case "numleaves":
			out = fmt.Sprint(m.GetNumLeaves())
		case "treerows":
			out = fmt.Sprint(m.GetTreeRows())
		case "prove":
			pr, err := m.Prove(q.hashes)
			out = fmt.Sprintf("%v:%v:%s", err != nil, pr.Targets, hexs(pr.Proof))
		case "verify":
			err := m.Verify(q.hashes, q.proof, false)
			out = fmt.Sprint(err != nil)
		case "verifyrem":
			// only issued on full forests, where remembering changes nothing
			err := m.Verify(q.hashes, q.proof, true)
			out = fmt.Sprint(err != nil)
		case "vpartial":
			err := m.VerifyPartialProof(q.targets, q.hashes, q.phashes, false)
			out = fmt.Sprint(err != nil)
		case "leafpos":
			pos, ok := m.GetLeafPosition(q.hashes[0])
			out = fmt.Sprintf("%d:%v", pos, ok)
		case "leafposs":
			out = fmt.Sprint(m.GetLeafHashPositions(q.hashes))
		case "gethash":
			h := m.GetHash(q.pos)
			out = hex.EncodeToString(h[:8])
		case "missing":
			out = fmt.Sprint(m.GetMissingPositions(q.targets))
		case "prunenoop":
			// Prune of a hash nobody tracks: changes nothing in any state, but takes
			// the state-changing path through the forest's locking
			out = fmt.Sprint(m.Prune(q.hashes) != nil)
		case "write":
			var b bytes.Buffer
			var w io.Writer = &b
			if e != nil {
				w = &parkWriter{w: &b, e: e}
			}
			n, err := m.Write(w)
			sum := uint64(1469598103934665603)
			for _, c := range b.Bytes() {
				sum = (sum ^ uint64(c)) * 1099511628211
			}
			out = fmt.Sprintf("%d:%v:%d:%016x", n, err != nil, b.Len(), sum)
		default:
			out = "?"
		}
		return nil
	})
	if pan {
		return "panic:" + firstLine(err.Error())
	}
	return out
}

func firstLine(s string) string {
	if i := strings.IndexByte(s, '\n'); i >= 0 {
		s = s[:i]
	}
	if len(s) > 80 {
		s = s[:80]
	}
	return s
}

// ---------------------------------------------------------------------------
// storage / io seams with park points

type parkNodes struct {
	inner *detNodes
	e     *c12Exec
}

func (p *parkNodes) Get(k uint64) (u.Leaf, bool) { p.e.access(0, false); return p.inner.Get(k) }
func (p *parkNodes) Put(k uint64, v u.Leaf)      { p.e.access(0, true); p.inner.Put(k, v) }
func (p *parkNodes) Delete(k uint64)             { p.e.access(0, true); p.inner.Delete(k) }
func (p *parkNodes) Length() int                 { p.e.access(0, false); return p.inner.Length() }
func (p *parkNodes) ForEach(fn func(uint64, u.Leaf) error) error {
	p.e.access(0, false)
	return p.inner.ForEach(fn)
}

type parkCached struct {
	inner *detCached
	e     *c12Exec
}

func (p *parkCached) Get(k H) (uint64, bool) { p.e.access(1, false); return p.inner.Get(k) }
func (p *parkCached) Put(k H, v uint64)      { p.e.access(1, true); p.inner.Put(k, v) }
func (p *parkCached) Delete(k H)             { p.e.access(1, true); p.inner.Delete(k) }
func (p *parkCached) Length() int            { p.e.access(1, false); return p.inner.Length() }
func (p *parkCached) ForEach(fn func(H, uint64) error) error {
	p.e.access(1, false)
	return p.inner.ForEach(fn)
}

type parkWriter struct {
	w io.Writer
	e *c12Exec
}

func (p *parkWriter) Write(b []byte) (int, error) { p.e.ioPoint(); return p.w.Write(b) }

type parkReader struct {
	r io.Reader
	e *c12Exec
}

func (p *parkReader) Read(b []byte) (int, error) { p.e.ioPoint(); return p.r.Read(b) }

// ---------------------------------------------------------------------------
// the concurrent execution

type c12HistOp struct {
	task, op  int
	writer    bool
	q         int // pool index (readers)
	call, ret int64
	result    string
	blocked   bool
	insection bool // started while the writer was parked inside its critical section
}

type c12Exec struct {
	c         *C12Case
	plan      *c12Plan
	s         *sched
	m         *u.MapPollard
	hist      []*c12HistOp
	open      map[int]*c12HistOp // task id -> op in progress
	viol      []Violation
	stats     *Stats
	log       []string
	trace     bool
	sum       uint64
	abort     int32
	picksUsed []int
	results   [][]string
}

//go:norace
func (e *c12Exec) logf(format string, a ...interface{}) {
	s := fmt.Sprintf(format, a...)
	for i := 0; i < len(s); i++ {
		e.sum = (e.sum ^ uint64(s[i])) * 1099511628211
	}
	e.sum = mix64(e.sum)
	if e.trace {
		e.log = append(e.log, s)
	}
}

//go:norace
func (e *c12Exec) violate(class, detail string) {
	for _, v := range e.viol {
		if v.Class == class {
			return
		}
	}
	e.viol = append(e.viol, Violation{Property: "C12", Class: class, Step: e.s.steps, Detail: detail})
	e.logf("VIOLATION C12 class=%s %s", class, detail)
}

//go:norace
func (e *c12Exec) parkDecision(t *schedTask, idx int) bool {
	if e.c.Density >= 100 {
		return true
	}
	return int(mix64(e.c.ParkSeed^uint64(t.id)<<40^uint64(t.opIdx)<<20^uint64(idx))%100) < e.c.Density
}

//go:norace
func (e *c12Exec) maybeExit() {
	if atomic.LoadInt32(&e.abort) != 0 {
		runtime.Goexit() // deferred unlocks of the library run
	}
}

// access: called by the storage seam on the calling task's goroutine.
//
//go:norace
func (e *c12Exec) access(mapID int, write bool) {
	t := e.s.current()
	if t == nil || !t.inCall {
		return
	}
	rec := accessRec{mapID, write}
	t.pending = &rec
	if t.callAccesses == 0 || e.parkDecision(t, t.callAccesses) {
		t.park("access")
		e.maybeExit()
	}
	t.pending = nil
	// mutual exclusion oracle: executed while this task is the only one running
	for _, y := range e.s.tasks {
		if y == t || !y.inCall || loadStatus(y) != stParked || y.parkKind == "precall" {
			continue
		}
		yPend := y.pending != nil && y.pending.mapID == mapID
		yTouches := y.readMaps[mapID] || y.wroteMaps[mapID] || yPend
		yWrites := y.wroteMaps[mapID] || (yPend && y.pending.write)
		if (write && yTouches) || yWrites {
			e.violate("conflict:"+e.kindOf(t)+"/"+e.kindOf(y),
				fmt.Sprintf("%s (%s, access #%d, write=%v) touched %s while %s (%s) was suspended inside its critical section after %d accesses (wrote=%v): conflicting accesses without mutual exclusion",
					t.name, e.kindOf(t), t.callAccesses, write, []string{"Nodes", "CachedLeaves"}[mapID], y.name, e.kindOf(y), y.callAccesses, y.wroteMaps[mapID]))
		}
	}
	if write {
		t.wroteMaps[mapID] = true
	} else {
		t.readMaps[mapID] = true
	}
	t.callAccesses++
}

// lockPoint: called through the verif-tag hook right after the library took
// its lock (read or write) in an exported method.
//
//go:norace
func (e *c12Exec) lockPoint(site string) {
	t := e.s.current()
	if t == nil || !t.inCall {
		return
	}
	t.lockDepth++
	if t.lockDepth > 1 {
		e.stats.Reach["nested_lock_acquisition"]++
	}
	if e.parkDecision(t, 104729+t.lockDepth) {
		t.park("locked")
		e.maybeExit()
	}
}

//go:norace
func (e *c12Exec) ioPoint() {
	t := e.s.current()
	if t == nil || !t.inCall {
		return
	}
	if e.parkDecision(t, t.callAccesses+7919) {
		t.park("io")
		e.maybeExit()
	}
}

//go:norace
func (e *c12Exec) kindOf(t *schedTask) string {
	if t.id == 0 {
		i := t.opIdx
		if i < len(e.c.Writer) {
			return e.c.Writer[i].Kind
		}
		return "?"
	}
	r := e.c.Readers[t.id-1]
	if t.opIdx < len(r) {
		return e.c.Pool[r[t.opIdx]%len(e.c.Pool)].Kind
	}
	return "?"
}

// picker chooses the next task among the runnable ones (sorted by id).
type c12Picker func(e *c12Exec, run []*schedTask) int

func replayPicker(picks []int) c12Picker {
	i := 0
	return func(e *c12Exec, run []*schedTask) int {
		p := 0
		if i < len(picks) {
			p = picks[i]
		}
		i++
		if p < 0 {
			p = -p
		}
		return p % len(run)
	}
}

const c12MaxSteps = 6000

//go:norace
func runC12(c *C12Case, plan *c12Plan, pick c12Picker, trace bool) *c12Exec {
	e := &c12Exec{c: c, plan: plan, stats: NewStats(), trace: trace, open: map[int]*c12HistOp{}}
	e.s = &sched{}
	e.m = c12NewForest(c, e)
	c12Current.Store(e)
	defer c12Current.Store(nil)
	nSetup := len(plan.wops) - len(c.Writer)
	for _, co := range plan.wops[:nSetup] {
		execWriter(e.m, co, nil) // no task exists yet: the seam does not park
	}
	wops := plan.wops[nSetup:]
	e.results = make([][]string, 1+len(c.Readers))
	e.results[0] = make([]string, len(wops))
	e.s.addTask("writer", func(t *schedTask) { e.writerBody(t, wops) })
	for ri, qs := range c.Readers {
		ri, qs := ri, qs
		e.results[ri+1] = make([]string, len(qs))
		e.s.addTask(fmt.Sprintf("reader%d", ri+1), func(t *schedTask) { e.readerBody(t, ri, qs) })
	}
	e.s.start()
	done := make([]int, len(e.s.tasks))
	for {
		if !e.s.settle() {
			e.violate("hang", "a task neither parked, finished nor blocked on a lock within the watchdog: it spins inside the library")
			hungWorker = true
			break
		}
		// returns observed at this settle point, in task order
		for _, t := range e.s.tasks {
			for done[t.id] < t.opsDone {
				op := e.open[t.id]
				if op != nil {
					op.ret = e.s.stamp()
					op.result = e.results[t.id][op.op]
					op.blocked = t.blockedSeen
					e.logf("ret %s op%d = %s", t.name, op.op, op.result)
					delete(e.open, t.id)
				}
				done[t.id]++
			}
		}
		for _, t := range e.s.tasks {
			if t.blockedSeen && e.open[t.id] != nil && !e.open[t.id].blocked {
				e.open[t.id].blocked = true
				if t.id == 0 {
					e.stats.Faults["writer_blocked_on_reader"]++
				} else {
					e.stats.Faults["reader_blocked_on_lock"]++
				}
			}
		}
		run := e.s.runnable()
		if len(run) == 0 {
			if un := e.s.unfinished(); len(un) > 0 {
				var names []string
				for _, t := range un {
					names = append(names, t.name+":"+e.kindOf(t))
				}
				e.violate("deadlock", "every unfinished task waits for the forest's lock and nobody holds a park point: "+strings.Join(names, ", "))
			}
			break
		}
		if len(e.viol) > 0 {
			break
		}
		e.s.steps++
		if e.s.steps > c12MaxSteps {
			break
		}
		pi := pick(e, run)
		e.picksUsed = append(e.picksUsed, pi)
		t := run[pi]
		if t.parkKind == "precall" {
			op := &c12HistOp{task: t.id, op: t.opIdx, writer: t.id == 0, call: e.s.stamp()}
			if t.id > 0 {
				op.q = c.Readers[t.id-1][t.opIdx] % len(plan.queries)
				w := e.s.tasks[0]
				if w.inCall && w.callAccesses > 0 && loadStatus(w) == stParked {
					op.insection = true
					e.stats.Faults["query_started_while_writer_in_section"]++
					e.stats.Reach["insec:"+e.kindOf(w)+"x"+e.kindOf(t)]++
				}
			}
			e.open[t.id] = op
			e.hist = append(e.hist, op)
			e.logf("call %s op%d %s", t.name, t.opIdx, e.kindOf(t))
		} else {
			e.stats.Faults["resume_in_section"]++
			e.logf("resume %s %s acc=%d", t.name, t.parkKind, t.callAccesses)
		}
		e.s.resume(t)
	}
	e.shutdown()
	e.stats.Events = e.s.steps
	e.stats.SimTime = e.s.seq
	return e
}

// Task bodies.  go:norace: the bookkeeping fields they share with the scheduler
// are deliberately unsynchronised in the race build (sync_race.go); the library
// calls they make are instrumented as usual.

//go:norace
func (e *c12Exec) writerBody(t *schedTask, wops []c12Concrete) {
	for i := range wops {
		t.opIdx = i
		t.park("precall")
		e.maybeExit()
		t.callAccesses, t.readMaps, t.wroteMaps, t.blockedSeen, t.pending, t.lockDepth = 0, [2]bool{}, [2]bool{}, false, nil, 0
		t.inCall = true
		r := execWriter(e.m, wops[i], e)
		t.inCall = false
		e.results[0][i] = r
		t.opsDone = i + 1
	}
}

//go:norace
func (e *c12Exec) readerBody(t *schedTask, ri int, qs []int) {
	for i, qi := range qs {
		t.opIdx = i
		t.park("precall")
		e.maybeExit()
		t.callAccesses, t.readMaps, t.wroteMaps, t.blockedSeen, t.pending, t.lockDepth = 0, [2]bool{}, [2]bool{}, false, nil, 0
		t.inCall = true
		r := execQuery(e.m, e.plan.queries[qi%len(e.plan.queries)], e)
		t.inCall = false
		e.results[ri+1][i] = r
		t.opsDone = i + 1
	}
}

// shutdown lets every parked task unwind (running the library's deferred
// unlocks) so that no goroutine or lock outlives the case, unless the case
// ended in a real deadlock or hang.
//
//go:norace
func (e *c12Exec) shutdown() {
	atomic.StoreInt32(&e.abort, 1)
	for i := 0; i < 10000; i++ {
		if e.s.hang {
			return
		}
		run := e.s.runnable()
		if len(run) == 0 {
			return
		}
		for _, t := range run {
			e.s.resume(t)
		}
		if !e.s.settle() {
			return
		}
	}
}

// ---------------------------------------------------------------------------
// history oracle

type c12In struct {
	writer bool
	idx    int
}

//go:norace
func (e *c12Exec) checkHistory() {
	if len(e.viol) > 0 {
		return
	}
	p := e.plan
	var wCalls, wRets []int64
	for _, op := range e.hist {
		if op.writer {
			wCalls = append(wCalls, op.call)
			if op.ret > 0 {
				wRets = append(wRets, op.ret)
			}
		}
	}
	complete := true
	for _, op := range e.hist {
		if op.ret == 0 {
			complete = false
			continue
		}
		if op.writer {
			if op.result != p.W[op.op] {
				cls := "writer-result"
				if strings.HasPrefix(op.result, "panic") {
					cls = "panic"
				}
				e.violate(cls+":"+e.c.Writer[op.op].Kind, fmt.Sprintf("writer step %d (%s) returned %q under concurrency, %q when run alone", op.op, e.c.Writer[op.op].Kind, op.result, p.W[op.op]))
				return
			}
			continue
		}
		lo, hi := 0, 0
		for _, r := range wRets {
			if r < op.call {
				lo++
			}
		}
		for _, cl := range wCalls {
			if cl < op.ret {
				hi++
			}
		}
		ok := false
		for k := lo; k <= hi && k < len(p.A); k++ {
			if p.A[k][op.q] == op.result {
				ok = true
				break
			}
		}
		e.stats.OracleChecks["window"]++
		if hi > lo {
			e.stats.Faults["query_overlapped_writer"]++
		}
		if !ok {
			kind := e.c.Pool[e.c.Readers[op.task-1][op.op]%len(e.c.Pool)].Kind
			cls := "half-applied"
			for k := range p.A {
				if p.A[k][op.q] == op.result {
					cls = "out-of-window"
				}
			}
			if strings.HasPrefix(op.result, "panic") {
				cls = "panic"
			}
			var legal []string
			for k := lo; k <= hi && k < len(p.A); k++ {
				legal = append(legal, fmt.Sprintf("state %d: %s", k, clip(p.A[k][op.q], 60)))
			}
			e.violate(cls+":"+kind, fmt.Sprintf("reader%d query %s returned %s, which is the answer in none of the whole-block states current during the call (%s)", op.task, kind, clip(op.result, 60), strings.Join(legal, "; ")))
			return
		}
	}
	if !complete {
		return
	}
	// cross-operation consistency: linearizability of the whole history
	var ops []porcupine.Operation
	for _, op := range e.hist {
		in := c12In{writer: op.writer, idx: op.op}
		if !op.writer {
			in.idx = op.q
		}
		ops = append(ops, porcupine.Operation{ClientId: op.task, Input: in, Call: op.call, Output: op.result, Return: op.ret})
	}
	if len(ops) > 80 {
		return
	}
	model := porcupine.Model{
		Init: func() interface{} { return 0 },
		Step: func(state, input, output interface{}) (bool, interface{}) {
			k := state.(int)
			in := input.(c12In)
			out := output.(string)
			if in.writer {
				if in.idx != k {
					return false, k
				}
				return out == p.W[k], k + 1
			}
			return p.A[k][in.idx] == out, k
		},
	}
	e.stats.OracleChecks["porcupine"]++
	switch porcupine.CheckOperationsTimeout(model, ops, 20*time.Second) {
	case porcupine.Illegal:
		e.violate("nonlinearizable", "every answer is right for some whole-block state inside its window, but no single order of the calls explains all of them")
	case porcupine.Unknown:
		e.stats.Reach["porcupine_timeout"]++
	}
}

func clip(s string, n int) string {
	if len(s) > n {
		return s[:n] + "..."
	}
	return s
}

// ---------------------------------------------------------------------------
// engine

type c12Engine struct{ race bool }

func (e *c12Engine) Name() string {
	if e.race {
		return "sched-race"
	}
	return "sched"
}

// WorkerExe: the race variant runs in the binary built with -race.
func (e *c12Engine) WorkerExe() string {
	if e.race {
		return "utxosim-race"
	}
	return ""
}
func (e *c12Engine) Property() string { return "C12" }
func (e *c12Engine) Describe() (string, []string, []string) {
	return "one case = one shared MapPollard (full or partial, seeded TotalRows, seeded pre-history), a writer script (Modify/Undo/Verify(remember)/Ingest/Prune/Read), 1-4 reader scripts drawn from a query pool, and a schedule (pick list) executed by the seeded cooperative scheduler over real goroutines; park points inside critical sections at storage-interface accesses and stream I/O; non-trivial = at least one query overlapped a writer step or a task was really blocked on the forest's lock; distinct = digest of the event log (calls, resumptions, returns with answers)",
		[]string{"MapPollard: Modify, Undo, Verify, VerifyPartialProof, Ingest, Prune, Read, Write, Prove, GetRoots, GetStump, GetHash, GetLeafPosition, GetLeafHashPositions, GetMissingPositions, GetNumLeaves, GetTreeRows", "sync.RWMutex inside MapPollard (real, never modelled)", "Go runtime scheduler for goroutines released by an unlock (they park at their first storage access)"},
		[]string{"storage maps behind NodesInterface / CachedLeavesInterface (deterministic maps with park points)", "io.Writer / io.Reader given to Write / Read", "task bodies, scheduler, sequential shadow instance (same library code, run alone)"}
}

func (e *c12Engine) Assumptions() []string {
	return []string{
		"the sequential specification is the same library code run alone on a private instance with the same deterministic storage; C12 asks only that concurrency adds no behaviour",
		"preemption happens only at park points: before each call, right after each lock acquisition (verif-tag hook), at every storage-interface access and stream I/O; not between arbitrary instructions",
		"a goroutine whose runtime wait reason is sync.RWMutex.RLock / sync.RWMutex.Lock / sync.Mutex.Lock is blocked on the forest's lock (proved by a canary in every process before the first case)",
		"hooks built in: " + fmt.Sprint(c12HooksBuilt),
		"engine sched-race: the same cases in a binary built with the Go race detector; the hand-off between scheduler and tasks uses no operation the detector treats as synchronisation, so only the library's own lock orders the tasks; only reports whose two accesses are both made by library code count; proved per process by a canary (an unsynchronised pair handed off the same way must be reported); if that binary cannot be built the engine is skipped and the check says so",
		"seeded search samples schedules; a clean batch is evidence, not proof",
	}
}

func (e *c12Engine) ExtraCoverage(s *Stats) map[string]interface{} {
	pairs := 0
	for k := range s.Reach {
		if strings.HasPrefix(k, "insec:") {
			pairs++
		}
	}
	return map[string]interface{}{
		"scheduler_steps":       s.Events,
		"writer_steps_executed": s.Applies,
		"distinct_writer_step_x_query_pairs_with_writer_suspended_in_section": pairs,
		"history_stamps": s.SimTime,
	}
}

func c12Queries() []string {
	return []string{"roots", "stump", "numleaves", "treerows", "prove", "verify", "vpartial", "leafpos", "leafposs", "gethash", "missing", "write", "prunenoop"}
}

func genC12(seed uint64) *C12Case {
	r := SubRng(seed, "c12gen")
	c := &C12Case{Seed: seed, Full: r.Pct(55), Rows: -1}
	switch r.Weighted(4, 3, 3) {
	case 1:
		c.Rows = 0
	case 2:
		c.Rows = 1 + r.Intn(6)
	}
	c.Density = []int{100, 100, 40, 15}[r.Intn(4)]
	c.ParkSeed = r.Next()
	picks := func(n, m int) []int {
		out := make([]int, n)
		for i := range out {
			out[i] = r.Intn(m)
		}
		return out
	}
	delPicks := func() []int {
		switch r.Weighted(3, 4, 2, 1) {
		case 0:
			return nil
		case 1:
			return picks(1+r.Intn(3), 1<<12)
		case 2:
			return picks(2+r.Intn(6), 1<<12)
		}
		return picks(12, 1<<12)
	}
	addCount := func() int {
		switch r.Weighted(2, 2, 5, 2) {
		case 0:
			return 0
		case 1:
			return 1
		case 2:
			return 2 + r.Intn(5)
		}
		return 8 + r.Intn(9)
	}
	for i, n := 0, r.Intn(4); i < n; i++ {
		op := C12Op{Kind: "modify", Adds: 1 + r.Intn(9), Seed: r.Next()}
		if i > 0 {
			op.Dels = delPicks()
		}
		c.Setup = append(c.Setup, op)
	}
	nW := 1 + r.Intn(6)
	depth := 0
	if len(c.Setup) > 0 && r.Pct(15) {
		c.Boot = true
		c.Writer = append(c.Writer, C12Op{Kind: "read"})
	}
	for len(c.Writer) < nW {
		var k int
		if c.Full {
			k = r.Weighted(10, 4, 2, 0, 0)
		} else {
			k = r.Weighted(8, 3, 3, 2, 3)
		}
		switch k {
		case 0:
			op := C12Op{Kind: "modify", Dels: delPicks(), Adds: addCount(), Seed: r.Next()}
			if !c.Full && len(op.Dels) > 0 {
				c.Writer = append(c.Writer, C12Op{Kind: "verifyrem", Picks: op.Dels})
			}
			c.Writer = append(c.Writer, op)
			depth++
		case 1:
			if depth > 0 {
				c.Writer = append(c.Writer, C12Op{Kind: "undo"})
				depth--
			}
		case 2:
			c.Writer = append(c.Writer, C12Op{Kind: "verifyrem", Picks: picks(1+r.Intn(4), 1<<12)})
		case 3:
			c.Writer = append(c.Writer, C12Op{Kind: "ingest", Picks: picks(1+r.Intn(4), 1<<12)})
		case 4:
			c.Writer = append(c.Writer, C12Op{Kind: "prune", Picks: picks(1+r.Intn(4), 1<<12)})
		}
	}
	kinds := c12Queries()
	if c.Full {
		// a full forest already remembers everything: a remembering Verify from a
		// query goroutine is a pure query there and may run beside the writer
		kinds = append(kinds, "verifyrem", "verifyrem")
	}
	nP := 6 + r.Intn(10)
	for i := 0; i < nP; i++ {
		k := kinds[r.Intn(len(kinds))]
		if i < 4 {
			k = []string{"numleaves", "roots", "gethash", "treerows"}[i]
		}
		c.Pool = append(c.Pool, C12Op{Kind: k, Picks: picks(1+r.Intn(4), 1<<12), Arg: r.Intn(16)})
	}
	nR := 1 + r.Intn(4)
	for i := 0; i < nR; i++ {
		c.Readers = append(c.Readers, picks(1+r.Intn(5), len(c.Pool)))
	}
	c.Strategy = []string{"uniform", "writer-biased", "insection-sweep", "insection-sweep", "reader-holds"}[r.Intn(5)]
	return c
}

// strategyPicker: the seeded schedule generator.  Its choices are recorded in
// the case (Picks), so a replay does not depend on it.
//
//go:norace
func strategyPicker(c *C12Case, seed uint64) c12Picker {
	r := SubRng(seed, "sched")
	phase := 0
	tgtOp, tgtAcc := 0, 0
	if len(c.Writer) > 0 {
		tgtOp = r.Intn(len(c.Writer))
	}
	tgtAcc = 1 + r.Intn(1+[]int{3, 10, 40, 150}[r.Intn(4)])
	holder := 1 + r.Intn(len(c.Readers))
	budget := 0
	return func(e *c12Exec, run []*schedTask) int {
		find := func(id int) int {
			for i, t := range run {
				if t.id == id {
					return i
				}
			}
			return -1
		}
		switch c.Strategy {
		case "writer-biased":
			if i := find(0); i >= 0 && r.Pct(80) {
				return i
			}
		case "insection-sweep":
			w := e.s.tasks[0]
			switch phase {
			case 0: // drive the writer to the target park point
				if i := find(0); i >= 0 {
					if w.opIdx > tgtOp || (w.opIdx == tgtOp && w.inCall && w.callAccesses >= tgtAcc) || w.opsDone >= len(c.Writer) {
						phase, budget = 1, 4+r.Intn(30)
					} else {
						return i
					}
				} else {
					phase, budget = 1, 4+r.Intn(30)
				}
				fallthrough
			case 1: // run the readers against the suspended writer
				budget--
				if budget <= 0 {
					phase = 2
				}
				var rs []int
				for i, t := range run {
					if t.id != 0 {
						rs = append(rs, i)
					}
				}
				if len(rs) > 0 {
					return rs[r.Intn(len(rs))]
				}
				phase = 2
			}
		case "reader-holds":
			switch phase {
			case 0: // get one reader suspended inside its call
				h := e.s.tasks[holder]
				if i := find(holder); i >= 0 && !(h.inCall && h.callAccesses >= 1+tgtAcc%3) {
					return i
				}
				phase = 1
				fallthrough
			case 1: // now the writer, until it blocks or finishes a step
				if i := find(0); i >= 0 {
					budget++
					if budget > 3+tgtAcc {
						phase = 2
					}
					return i
				}
				phase = 2
			}
		}
		return r.Intn(len(run))
	}
}

var c12CanaryOnce sync.Once
var c12CanaryErr error

func (e *c12Engine) Run(seed uint64, f *Findings) *CaseResult {
	c12CanaryOnce.Do(func() {
		c12CanaryErr = schedCanary()
		if c12CanaryErr == nil && e.race {
			c12CanaryErr = raceCanary()
		}
	})
	if c12CanaryErr != nil {
		return &CaseResult{Stats: NewStats(), Panic: c12CanaryErr.Error()}
	}
	c := genC12(seed)
	plan := buildPlan(c)
	if plan.hang != "" {
		return e.seqHang(c, plan, f)
	}
	if plan.seqWrong != "" {
		return e.seqWrongResult(c, plan, f)
	}
	if plan.trouble != "" {
		return &CaseResult{Stats: NewStats(), Case: c, Digest: mix64(seed)}
	}
	ex := runC12(c, plan, strategyPicker(c, seed), false)
	c.Picks = ex.picksUsed
	return e.finish(c, ex, f)
}

func (e *c12Engine) finish(c *C12Case, ex *c12Exec, f *Findings) *CaseResult {
	if raceEnabled {
		ex.collectRaces()
	}
	ex.checkHistory()
	st := ex.stats
	for _, op := range ex.hist {
		if op.writer {
			st.Applies++
		}
	}
	st.Blocks = len(c.Writer)
	nontrivial := st.Faults["query_overlapped_writer"] > 0 || st.Faults["reader_blocked_on_lock"] > 0 || st.Faults["writer_blocked_on_reader"] > 0
	cr := &CaseResult{Digest: ex.sum, NonTrivial: nontrivial, Stats: st, Case: c}
	for _, v := range ex.viol {
		if f != nil && f.Matches(v) {
			st.Known["C12:"+v.Class]++
			continue
		}
		cr.Violations = append(cr.Violations, v)
	}
	return cr
}

// seqHang: the sequential shadow run itself got stuck.
func (e *c12Engine) seqHang(c *C12Case, plan *c12Plan, f *Findings) *CaseResult {
	v := Violation{Property: "C12", Class: "deadlock:sequential", Detail: "a single caller, with nobody else using the forest, got stuck in " + plan.hang + ": a call did not return within 8 s (a lock left behind by an earlier call, or a loop that does not end)"}
	cr := &CaseResult{Stats: NewStats(), Case: c, NonTrivial: true, Digest: mix64(c.Seed)}
	if f != nil && f.Matches(v) {
		cr.Stats.Known["C12:"+v.Class]++
	} else {
		cr.Violations = []Violation{v}
	}
	return cr
}

// seqWrongResult: the answer is wrong even without any concurrency.
func (e *c12Engine) seqWrongResult(c *C12Case, plan *c12Plan, f *Findings) *CaseResult {
	kind := strings.SplitN(strings.TrimPrefix(plan.seqWrong, "query "), " ", 2)[0]
	v := Violation{Property: "C12", Class: "wrong-answer:" + kind, Detail: "not correct for any whole-block state — " + plan.seqWrong}
	cr := &CaseResult{Stats: NewStats(), Case: c, NonTrivial: true, Digest: mix64(c.Seed ^ 0x5e9)}
	cr.Stats.OracleChecks["shadow_truth"]++
	if f != nil && f.Matches(v) {
		cr.Stats.Known["C12:"+v.Class]++
	} else {
		cr.Violations = []Violation{v}
	}
	return cr
}

func (e *c12Engine) runCase(c *C12Case, f *Findings, trace bool) (*CaseResult, []string) {
	plan := buildPlan(c)
	if plan.hang != "" {
		return e.seqHang(c, plan, f), []string{"sequential run stuck in " + plan.hang}
	}
	if plan.seqWrong != "" {
		return e.seqWrongResult(c, plan, f), []string{plan.seqWrong}
	}
	if plan.trouble != "" {
		return &CaseResult{Stats: NewStats(), Case: c}, []string{"plan: " + plan.trouble}
	}
	ex := runC12(c, plan, replayPicker(c.Picks), trace)
	cr := e.finish(c, ex, f)
	return cr, ex.log
}

func (e *c12Engine) Replay(raw json.RawMessage, f *Findings, trace bool) (*CaseResult, []string, error) {
	var c C12Case
	if err := json.Unmarshal(raw, &c); err != nil {
		return nil, nil, err
	}
	if err := schedCanary(); err != nil {
		return nil, nil, err
	}
	if e.race {
		if err := raceCanary(); err != nil {
			return nil, nil, err
		}
	}
	cr, log := e.runCase(&c, f, trace)
	return cr, log, nil
}

func (e *c12Engine) fails(c *C12Case, class string, f *Findings) bool {
	if hungWorker {
		return false
	}
	if raceEnabled && strings.HasPrefix(class, "data-race") {
		// the detector reports a given race once per process: every candidate
		// needs a fresh process
		_, ok := c12TryInChild(c, class, -1)
		return ok
	}
	cr, _ := e.runCase(c, f, false)
	for _, v := range cr.Violations {
		if v.Class == class {
			return true
		}
	}
	return false
}

// Minimize: greedy delta debugging over readers, queries, writer steps, setup
// blocks and the pick list, keeping the same violation class.
func (e *c12Engine) Minimize(ci interface{}, class string, f *Findings, budget time.Duration) interface{} {
	best := ci.(*C12Case).clone()
	if class == "hang" || class == "deadlock:sequential" || hungWorker {
		return best
	}
	deadline := time.Now().Add(budget)
	try := func(c *C12Case) bool {
		if time.Now().After(deadline) {
			return false
		}
		if e.fails(c, class, f) {
			best = c
			return true
		}
		return false
	}
	// tryResched: a structural reduction shifts the schedule; if the inherited
	// pick list no longer fails, look for another schedule of the reduced case
	// (a few seeds of each generator strategy) that fails the same way.
	tryResched := func(c *C12Case) bool {
		if try(c) {
			return true
		}
		for i := 0; i < 12 && time.Now().Before(deadline) && !hungWorker; i++ {
			c2 := c.clone()
			c2.Strategy = []string{"insection-sweep", "uniform", "reader-holds", "writer-biased"}[i%4]
			if raceEnabled && strings.HasPrefix(class, "data-race") {
				if picks, ok := c12TryInChild(c2, class, i); ok {
					c2.Picks = picks
					best = c2
					return true
				}
				continue
			}
			plan := buildPlan(c2)
			if plan.trouble != "" {
				return false
			}
			ex := runC12(c2, plan, strategyPicker(c2, mix64(c.Seed^uint64(i)*0x51f1)), false)
			c2.Picks = ex.picksUsed
			cr := e.finish(c2, ex, f)
			for _, v := range cr.Violations {
				if v.Class == class {
					best = c2
					return true
				}
			}
		}
		return false
	}
	// compactPool: keep only the queries some reader still issues
	compactPool := func(c *C12Case) *C12Case {
		used := map[int]int{}
		var pool []C12Op
		d := c.clone()
		for ri := range d.Readers {
			for qi, q := range d.Readers[ri] {
				q %= len(c.Pool)
				if _, ok := used[q]; !ok {
					used[q] = len(pool)
					pool = append(pool, c.Pool[q])
				}
				d.Readers[ri][qi] = used[q]
			}
		}
		d.Pool = pool
		return d
	}
	for round := 0; round < 4; round++ {
		before := best.Size()
		// drop whole readers
		for i := len(best.Readers) - 1; i >= 0 && len(best.Readers) > 1; i-- {
			c := best.clone()
			c.Readers = append(c.Readers[:i:i], c.Readers[i+1:]...)
			tryResched(c)
		}
		// drop single queries
		for ri := range best.Readers {
			for qi := len(best.Readers[ri]) - 1; qi >= 0 && len(best.Readers[ri]) > 1; qi-- {
				c := best.clone()
				if ri >= len(c.Readers) || qi >= len(c.Readers[ri]) {
					continue
				}
				c.Readers[ri] = append(c.Readers[ri][:qi:qi], c.Readers[ri][qi+1:]...)
				try(c)
			}
		}
		// truncate / drop writer steps
		for i := len(best.Writer) - 1; i >= 0 && len(best.Writer) > 1; i-- {
			c := best.clone()
			if i >= len(c.Writer) {
				continue
			}
			c.Writer = append(c.Writer[:i:i], c.Writer[i+1:]...)
			tryResched(c)
		}
		for i := len(best.Setup) - 1; i >= 0; i-- {
			c := best.clone()
			if i >= len(c.Setup) {
				continue
			}
			c.Setup = append(c.Setup[:i:i], c.Setup[i+1:]...)
			tryResched(c)
		}
		// shrink block sizes
		for i := range best.Writer {
			if best.Writer[i].Kind == "modify" {
				if best.Writer[i].Adds > 2 {
					c := best.clone()
					c.Writer[i].Adds = 2
					try(c)
				}
				if len(best.Writer[i].Dels) > 0 {
					c := best.clone()
					c.Writer[i].Dels = nil
					try(c)
				}
			}
		}
		// schedule: truncate the pick list (the tail defaults to "lowest runnable id"), then drop chunks
		for n := len(best.Picks) / 2; n >= 1; n /= 2 {
			for start := 0; start+n <= len(best.Picks); {
				c := best.clone()
				c.Picks = append(c.Picks[:start:start], c.Picks[start+n:]...)
				if !try(c) {
					start += n
				}
			}
		}
		if best.Density < 100 {
			c := best.clone()
			c.Density = 100
			try(c)
		}
		if best.Size() >= before || time.Now().After(deadline) {
			break
		}
	}
	if c := compactPool(best); len(c.Pool) < len(best.Pool) {
		// resolution of a query depends only on its own fields, so re-indexing keeps the run identical
		try(c)
	}
	best.Strategy = ""
	return best
}

func init() {
	// keep sort imported for future deterministic iteration helpers
	_ = sort.Ints
}

// c12TryInChild runs one candidate in a fresh process of this binary
// (subcommand c12try).  resched < 0: replay the candidate's own pick list;
// otherwise generate a schedule with the candidate's strategy and that seed
// index.  Returns the pick list used and whether the class was reproduced.
func c12TryInChild(c *C12Case, class string, resched int) ([]int, bool) {
	exe, err := os.Executable()
	if err != nil {
		return nil, false
	}
	dir, err := os.MkdirTemp("", "c12try-")
	if err != nil {
		return nil, false
	}
	defer os.RemoveAll(dir)
	b, _ := json.Marshal(c)
	file := filepath.Join(dir, "case.json")
	if os.WriteFile(file, b, 0o644) != nil {
		return nil, false
	}
	cmd := exec.Command(exe, "c12try", file, class, fmt.Sprint(resched))
	cmd.Env = append(os.Environ(), "GORACE=log_path="+filepath.Join(dir, "race")+" halt_on_error=0 exitcode=0")
	out, err := cmd.Output()
	if err != nil {
		return nil, false
	}
	var picks []int
	if json.Unmarshal(bytes.TrimSpace(out), &picks) != nil {
		return nil, false
	}
	return picks, true
}

// cmdC12Try: see c12TryInChild.  Exit 0 and the pick list on stdout if the
// class was reproduced, exit 1 otherwise.
func cmdC12Try(args []string) int {
	if len(args) < 3 {
		return 2
	}
	b, err := os.ReadFile(args[0])
	if err != nil {
		return 2
	}
	var c C12Case
	if json.Unmarshal(b, &c) != nil {
		return 2
	}
	class := args[1]
	resched := -1
	fmt.Sscan(args[2], &resched)
	e := &c12Engine{race: raceEnabled}
	if schedCanary() != nil || (raceEnabled && raceCanary() != nil) {
		return 2
	}
	f := loadFindings()
	plan := buildPlan(&c)
	if plan.trouble != "" {
		return 1
	}
	var ex *c12Exec
	if resched < 0 {
		ex = runC12(&c, plan, replayPicker(c.Picks), false)
	} else {
		ex = runC12(&c, plan, strategyPicker(&c, mix64(c.Seed^uint64(resched)*0x51f1)), false)
		c.Picks = ex.picksUsed
	}
	cr := e.finish(&c, ex, f)
	for _, v := range cr.Violations {
		if v.Class == class {
			out, _ := json.Marshal(c.Picks)
			fmt.Println(string(out))
			return 0
		}
	}
	return 1
}
