package main

import (
	"fmt"

	u "github.com/utreexo/utreexo"
)

// Node glue (stub) around real library objects.

type nodeBlk struct {
	ud       u.UpdateData
	rem      []uint32
	preStump u.Stump
	leaves   []u.Leaf // leaves with this node's remember flags (partial)
	preRem   map[H]bool
}

type nodeOp struct {
	kind   string // apply | undo | prune | ingest | verifyrem | restore
	block  int
	hashes []H
	arg    int
}

type Node struct {
	idx       int
	name      string
	cfg       NodeCfg
	at        int
	wantTip   int
	lastAnn   int
	crashed   bool
	partUntil int64 // partitioned from the source until this simulated time
	offline   bool  // from-roots partial node not bootstrapped yet
	dead      bool  // could not be re-synchronised; skipped for the rest of the run
	tainted   bool

	st  u.Stump
	acc u.Utreexo
	pol *u.Pollard
	mp  *mapView

	// light client
	cp   u.Proof
	ch   []H
	held map[H]bool

	// partial forest
	remembered map[H]bool
	bootAt     int

	blk map[int]*nodeBlk
	ops []nodeOp

	hasUndo, hasRestore, hasCacheOps bool
	hasForged                        bool

	disk *simDisk

	// context of the operation in progress (used by attribution twins)
	ctxTarget int
	ctxSeed   uint64
	twinCache map[string]map[string]bool
}

func (n *Node) isForest() bool {
	return n.cfg.Kind == "pollard" || n.cfg.Kind == "mapfull" || n.cfg.Kind == "mappartial"
}
func (n *Node) isMap() bool     { return n.cfg.Kind == "mapfull" || n.cfg.Kind == "mappartial" }
func (n *Node) isPartial() bool { return n.cfg.Kind == "mappartial" }
func (n *Node) isStumpy() bool  { return n.cfg.Kind == "stump" || n.cfg.Kind == "light" }

func (w *World) newNode(idx int, cfg NodeCfg) *Node {
	n := &Node{idx: idx, cfg: cfg, blk: map[int]*nodeBlk{}, disk: newSimDisk()}
	n.name = fmt.Sprintf("%s#%d", cfg.Kind, idx)
	if cfg.Kind == "mapfull" || cfg.Kind == "mappartial" {
		n.name = fmt.Sprintf("%s(r%d)#%d", cfg.Kind, cfg.TotalRows, idx)
	}
	w.initNode(n)
	if cfg.Kind == "mappartial" && cfg.FromRoots > 0 {
		n.offline = true
	}
	return n
}

// initNode (re)creates the real library object in its empty state.
func (w *World) initNode(n *Node) {
	n.at = 0
	n.ops = nil
	n.hasUndo, n.hasRestore, n.hasCacheOps = false, false, false
	n.tainted = false
	n.blk = map[int]*nodeBlk{}
	n.bootAt = 0
	switch n.cfg.Kind {
	case "stump":
		n.st = n.bigStump(NewState())
	case "light":
		n.st = n.bigStump(NewState())
		n.cp = u.Proof{}
		n.ch = nil
		n.held = map[H]bool{}
	case "pollard":
		p := u.NewAccumulator()
		n.pol = &p
		n.acc = n.pol
	case "mapfull", "mappartial":
		if n.big() {
			// embedded at a big offset: roots-only start (big.go, mapview.go)
			op := n.bigRoots()
			m := u.NewMapPollardFromRoots(append([]H(nil), op...), n.cfg.Big, false)
			n.mp = &mapView{m: &m, B: n.cfg.Big, opaque: op, node: n}
			w.rehome(n, &m)
		} else {
			m := u.NewMapPollard(n.cfg.Kind == "mapfull")
			n.mp = &mapView{m: &m, node: n}
			w.configMap(n, &m)
		}
		n.acc = n.mp
		n.remembered = map[H]bool{}
	default:
		panic("unknown node kind " + n.cfg.Kind)
	}
}

func (w *World) configMap(n *Node, m *u.MapPollard) {
	if n.cfg.TotalRows >= 0 {
		m.TotalRows = uint8(n.cfg.TotalRows)
	}
	if n.cfg.DetMaps {
		sd := mix64(w.sc.Seed ^ uint64(n.idx+1)*0x51ed27)
		m.Nodes = newDetNodes(sd)
		m.CachedLeaves = newDetCached(sd ^ 0x77)
	}
}

// rehome moves a freshly created from-roots forest into deterministic maps.
func (w *World) rehome(n *Node, m *u.MapPollard) {
	if !n.cfg.DetMaps {
		return
	}
	dn, dc := newDetNodes(mix64(w.sc.Seed^uint64(n.idx+1))), newDetCached(mix64(w.sc.Seed^uint64(n.idx+7)))
	m.Nodes.ForEach(func(k uint64, v u.Leaf) error { dn.Put(k, v); return nil })
	m.Nodes, m.CachedLeaves = dn, dc
}

// guard runs a library call; a panic is converted into an error value.
func guard(f func() error) (err error, panicked bool) {
	defer func() {
		if r := recover(); r != nil {
			err = fmt.Errorf("panic: %v", r)
			panicked = true
		}
	}()
	return f(), false
}

// remember flags of a block for a node (pure function of block seed and node index)
func (w *World) remFlags(n *Node, b *Block) []bool {
	r := SubRng(b.Seed^uint64(n.idx+1)*0x9e3779b1, "rem")
	out := make([]bool, len(b.Adds))
	if n.cfg.FullRoots {
		// a full forest remembers every addition whatever the flag says
		for i := range out {
			out[i] = true
		}
		return out
	}
	mode := r.Weighted(2, 2, 2, 3, 2)
	if len(out) > 512 && mode != 0 && mode != 2 {
		mode = 5 // a block of tens of thousands of additions: remember a sparse subset
	}
	for i := range out {
		switch mode {
		case 0: // none
		case 1:
			out[i] = true
		case 2:
			out[i] = i == len(out)-1
		case 3:
			out[i] = r.Pct(50)
		case 4:
			out[i] = r.Pct(20)
		case 5:
			out[i] = r.Intn(1000) < 4 || i == len(out)-1 || i == 0
		}
	}
	return out
}

// syncNode moves the node to the given tip: undo to the common ancestor, then apply.
func (w *World) syncNode(n *Node, tip int) {
	if n.dead || n.crashed {
		return
	}
	if n.offline {
		if !w.bootPartial(n, tip) {
			return
		}
	}
	if n.tainted {
		w.rebuild(n, n.at)
		if n.dead {
			return
		}
	}
	undo, apply := w.path(n.at, tip)
	if len(undo) > 0 {
		needRebuild := n.cfg.NoUndo
		if n.cfg.FromRoots > 0 && w.blocks[n.bootAt].Height > w.blocks[undo[len(undo)-1].Parent].Height {
			// the reorganisation goes below the block this forest was started from.
			// Half of the time the node starts over from the roots of the fork point;
			// otherwise it undoes with the complete block data as everybody else does
			// (Undo is given the proof and the previous roots for exactly that reason).
			needRebuild = n.cfg.NoUndo || mix64(w.sc.Seed^uint64(w.stats.Events)*0xb007^uint64(n.idx))%2 == 0
			if !needRebuild {
				w.stats.Reach["undo_below_from_roots_start"]++
				n.bootAt = undo[len(undo)-1].Parent
			}
		}
		if needRebuild {
			w.stats.Reach["rebuild_instead_of_undo"]++
			if n.cfg.FromRoots > 0 {
				lca := undo[len(undo)-1].Parent
				w.bootPartialAt(n, lca)
			} else {
				w.rebuild(n, undo[len(undo)-1].Parent)
			}
			if n.dead {
				return
			}
			undo = nil
		}
	}
	if len(undo) >= 3 {
		w.stats.Reach["undo_depth_ge3"]++
	}
	for _, b := range undo {
		if w.stop || n.dead {
			return
		}
		w.undoBlock(n, b)
	}
	for _, b := range apply {
		if w.stop || n.dead {
			return
		}
		w.applyBlock(n, b)
	}
}

// rebuild: fresh instance, forward application from genesis to `target`
// (no oracles except the final state sanity check).
func (w *World) rebuild(n *Node, target int) {
	if n.cfg.FromRoots > 0 {
		w.bootPartialAt(n, target)
		return
	}
	w.initNode(n)
	_, apply := w.path(0, target)
	for _, b := range apply {
		if !w.rawApply(n, b) {
			n.dead = true
			w.stats.Reach["node_dead"]++
			w.logf("%s: rebuild failed at block %d; node skipped for the rest of the run", n.name, b.ID)
			return
		}
	}
	if !w.rootsAgree(n, w.blocks[target].Post) {
		n.dead = true
		w.stats.Reach["node_dead"]++
		w.logf("%s: rebuild diverges from the model; node skipped for the rest of the run", n.name)
	}
}

// bootPartial: a from-roots partial node joins once the chain is high enough.
func (w *World) bootPartial(n *Node, tip int) bool {
	if w.blocks[tip].Height < n.cfg.FromRoots {
		return false
	}
	anc := w.ancestorAt(tip, n.cfg.FromRoots)
	w.bootPartialAt(n, anc.ID)
	w.stats.Reach["partial_from_roots"]++
	return true
}

func (w *World) bootPartialAt(n *Node, id int) {
	st := w.blocks[id].Post
	L := st.Layout()
	var op []H
	if n.big() {
		op = n.bigRoots()
	}
	roots := append(append([]H(nil), op...), L.Roots...)
	m := u.NewMapPollardFromRoots(roots, n.cfg.Big+st.N, n.cfg.FullRoots)
	w.rehome(n, &m)
	n.mp = &mapView{m: &m, B: n.cfg.Big, opaque: op, node: n}
	n.acc = n.mp
	n.at = id
	n.bootAt = id
	n.offline = false
	n.remembered = map[H]bool{}
	n.ops = nil
	n.blk = map[int]*nodeBlk{}
	n.hasUndo, n.hasRestore, n.hasCacheOps = false, false, false
	n.tainted = false
	w.logf("%s: bootstrapped from roots at block %d (N=%d)", n.name, id, st.N)
}

// rootsAgree: cheap state-sanity check (leaf count and ordered roots).
func (w *World) rootsAgree(n *Node, st *State) bool {
	L := st.Layout()
	var roots []H
	var num uint64
	if n.isStumpy() {
		var ok bool
		if roots, num, ok = n.smallView(); !ok {
			return false
		}
	} else {
		err, _ := guard(func() error { roots, num = n.acc.GetRoots(), n.acc.GetNumLeaves(); return nil })
		if err != nil {
			return false
		}
	}
	return num == st.N && eqHashes(roots, L.Roots)
}

// rawApply applies a block without oracles (used for rebuilds and twins).
// Returns false on error/panic.
func (w *World) rawApply(n *Node, b *Block) bool {
	switch n.cfg.Kind {
	case "stump", "light":
		nb := &nodeBlk{preStump: copyStump(n.st)}
		var ud u.UpdateData
		bp := n.upProof(b.Proof, b.Pre.N)
		err, _ := guard(func() error { var e error; ud, e = n.st.Update(b.Dels, b.Adds, bp); return e })
		if err != nil {
			return false
		}
		nb.ud = ud
		if n.cfg.Kind == "light" {
			flags := w.remFlags(n, b)
			for i, f := range flags {
				if f {
					nb.rem = append(nb.rem, uint32(i))
				}
			}
			err, _ = guard(func() error {
				var e error
				n.ch, e = n.cp.Update(n.ch, b.Adds, bp.Targets, nb.rem, ud)
				return e
			})
			if err != nil {
				return false
			}
			for _, d := range b.Dels {
				delete(n.held, d)
			}
			for _, r := range nb.rem {
				n.held[b.Adds[r]] = true
			}
		}
		n.blk[b.ID] = nb
	case "pollard", "mapfull":
		return w.rawApplyKind(n, b) == ""
	case "mappartial":
		nb := &nodeBlk{}
		if len(b.Dels) > 0 {
			err, _ := guard(func() error { return n.mp.Verify(b.Dels, b.Proof, true) })
			if err != nil {
				return false
			}
		}
		flags := w.remFlags(n, b)
		nb.leaves = make([]u.Leaf, len(b.Adds))
		for i := range nb.leaves {
			nb.leaves[i] = u.Leaf{Hash: b.Adds[i], Remember: flags[i]}
		}
		err, _ := guard(func() error { return n.mp.Modify(nb.leaves, b.Dels, b.Proof) })
		if err != nil {
			return false
		}
		for _, d := range b.Dels {
			delete(n.remembered, d)
		}
		for i, f := range flags {
			if f {
				n.remembered[b.Adds[i]] = true
			}
		}
		n.blk[b.ID] = nb
	}
	n.at = b.ID
	return true
}

func copyStump(s u.Stump) u.Stump {
	return u.Stump{Roots: append([]H(nil), s.Roots...), NumLeaves: s.NumLeaves}
}

// ---------------------------------------------------------------------------
// forward application with oracles

func (w *World) applyBlock(n *Node, b *Block) {
	w.stats.Events++
	w.stats.Applies++
	w.logf("%s: apply block %d", n.name, b.ID)
	if n.big() {
		w.stats.Reach["apply_on_node_at_big_offset_"+n.cfg.Kind]++
	}
	n.ops = append(n.ops, nodeOp{kind: "apply", block: b.ID})
	n.ctxTarget, n.ctxSeed, n.twinCache = b.ID, mix64(w.sc.Seed^uint64(w.stats.Events)*0x9e37^uint64(n.idx)<<32), nil
	switch n.cfg.Kind {
	case "stump", "light":
		w.applyStumpy(n, b)
	case "pollard", "mapfull":
		w.applyFull(n, b)
	case "mappartial":
		w.applyPartial(n, b)
	}
	if n.dead || w.stop {
		return
	}
	n.at = b.ID
	w.checkNode(n, b.Post, "apply")
}

func (w *World) applyFull(n *Node, b *Block) {
	dels, proof, leaves := b.Dels, b.Proof, b.Leaves
	if n.cfg.Relay == "reenc" {
		var ok bool
		dels, proof, ok = w.reencode(n, b)
		if !ok {
			dels, proof = b.Dels, b.Proof
		}
	}
	if n.cfg.Relay == "rebatch" {
		w.applyRebatched(n, b)
		return
	}
	w.forgedTraffic(n, b, false)
	if n.dead || w.stop || n.tainted {
		return
	}
	r := SubRng(b.Seed^uint64(n.idx+1)*0x1f3, "applyfull")
	remember := n.cfg.Kind == "mapfull" && r.Pct(25)
	if len(dels) > 0 || r.Pct(30) {
		g := w.fp.begin("Verify", dels, proof.Targets, proof.Proof)
		err, _ := guard(func() error { return n.acc.Verify(dels, proof, remember) })
		g.end()
		w.count("verify_honest")
		if err != nil {
			w.blame(n, "verify-honest", "forest rejected an honest block proof: "+err.Error())
		}
		if remember {
			w.stats.Reach["full_verify_remember"]++
			n.ops = append(n.ops, nodeOp{kind: "verifyrem", block: b.ID})
		}
	}
	mDels := dels
	if n.cfg.Kind == "mapfull" && len(dels) > 1 && r.Pct(15) {
		// the map forest's Modify takes the deleted hashes and the proof's targets in
		// independent orders ("do not have to be in the same order"): the hashes
		// shuffled on their own, the (already verified) proof as it is
		mDels = padH(append([]H(nil), dels...))
		r.Shuffle(len(mDels), func(i, j int) { mDels[i], mDels[j] = mDels[j], mDels[i] })
		w.stats.Reach["modify_hashes_and_targets_in_different_orders"]++
	}
	g := w.fp.begin("Modify", mDels, proof.Targets, proof.Proof, leaves)
	err, _ := guard(func() error { return n.acc.Modify(leaves, mDels, proof) })
	g.end()
	if err != nil {
		w.blame(n, "apply-err", fmt.Sprintf("Modify failed on an honest block %d: %v", b.ID, err))
		n.tainted = true
	}
}

// applyRebatched: the same deletions and additions, batched differently
// (deletions-only sub-block(s), then an additions-only sub-block).
func (w *World) applyRebatched(n *Node, b *Block) {
	r := SubRng(b.Seed^uint64(n.idx+1)*0x2b1, "rebatch")
	cur := b.Pre
	groups := [][]H{b.Dels}
	if len(b.Dels) >= 2 && r.Pct(60) {
		k := 1 + r.Intn(len(b.Dels)-1)
		groups = [][]H{b.Dels[:k], b.Dels[k:]}
	}
	w.stats.Reach["rebatched_block"]++
	for _, g := range groups {
		if len(g) == 0 {
			continue
		}
		pr, ok := cur.Layout().CanonProof(g)
		if !ok {
			panic("harness: rebatch proof")
		}
		err, _ := guard(func() error { return n.acc.Modify(nil, g, pr) })
		if err != nil {
			w.blame(n, "apply-err", fmt.Sprintf("Modify(dels only) failed on block %d: %v", b.ID, err))
			n.tainted = true
			return
		}
		cur = cur.WithDels(g)
	}
	// additions, possibly in two sub-blocks as well
	adds := b.Leaves
	parts := [][]u.Leaf{adds}
	if len(adds) >= 2 && r.Pct(50) {
		k := 1 + r.Intn(len(adds)-1)
		parts = [][]u.Leaf{adds[:k], adds[k:]}
	}
	for _, p := range parts {
		if len(p) == 0 {
			continue
		}
		err, _ := guard(func() error { return n.acc.Modify(p, nil, u.Proof{}) })
		if err != nil {
			w.blame(n, "apply-err", fmt.Sprintf("Modify(adds only) failed on block %d: %v", b.ID, err))
			n.tainted = true
			return
		}
	}
}

func (w *World) applyPartial(n *Node, b *Block) {
	nb := &nodeBlk{preRem: copySet(n.remembered)}
	n.blk[b.ID] = nb
	bDels, bProof := b.Dels, b.Proof
	if n.cfg.Relay == "reenc" {
		// C05: the block arrives in an accepted but non-canonical encoding
		if d2, p2, ok := w.reencode(n, b); ok {
			bDels, bProof = d2, p2
		}
	}
	w.forgedTraffic(n, b, false)
	if n.dead || w.stop || n.tainted {
		return
	}
	if len(b.Dels) > 0 {
		usePartial := w.on("c14proto") && n.cfg.Relay == "" && SubRng(b.Seed^uint64(n.idx), "pp").Pct(60)
		if usePartial {
			w.partialFetchVerify(n, b.Pre, b.Dels, b.Proof.Targets, true)
		} else {
			// a seeded quarter of the blocks is verified without remembering and then
			// handed to Ingest (the unverified way in), as a caller that verifies
			// elsewhere does
			viaIngest := SubRng(b.Seed^uint64(n.idx), "via-ingest").Pct(25)
			g := w.fp.begin("Verify", bDels, bProof.Targets, bProof.Proof)
			err, _ := guard(func() error { return n.mp.Verify(bDels, bProof, !viaIngest) })
			g.end()
			w.count("verify_honest")
			if err != nil {
				w.blame(n, "verify-honest", "partial forest rejected an honest block proof: "+err.Error())
				n.tainted = true
				return
			}
			if viaIngest {
				w.stats.Reach["block_via_ingest"]++
				g := w.fp.begin("Ingest", bDels, bProof.Targets, bProof.Proof)
				err, _ := guard(func() error { return n.mp.Ingest(bDels, bProof) })
				g.end()
				if err != nil {
					w.blame(n, "apply-err", fmt.Sprintf("Ingest of the honest proof of block %d failed: %v", b.ID, err))
					n.tainted = true
					return
				}
			}
		}
		for _, d := range b.Dels {
			n.remembered[d] = true
		}
		if w.on("partial") && !n.cfg.FullRoots {
			w.checkPartialContent(n, b.Pre, "after-verify-remember")
			if w.stop {
				return
			}
		}
	}
	w.forgedTraffic(n, b, true)
	if n.dead || w.stop || n.tainted {
		return
	}
	flags := w.remFlags(n, b)
	nb.leaves = make([]u.Leaf, len(b.Adds), len(b.Adds)+1)
	for i := range nb.leaves {
		nb.leaves[i] = u.Leaf{Hash: b.Adds[i], Remember: flags[i]}
	}
	g := w.fp.begin("Modify", bDels, bProof.Targets, bProof.Proof, nb.leaves)
	err, _ := guard(func() error { return n.mp.Modify(nb.leaves, bDels, bProof) })
	g.end()
	if err != nil {
		w.blame(n, "apply-err", fmt.Sprintf("partial Modify failed on an honest block %d: %v", b.ID, err))
		n.tainted = true
		return
	}
	for _, d := range b.Dels {
		delete(n.remembered, d)
	}
	for i, f := range flags {
		if f {
			n.remembered[b.Adds[i]] = true
		}
	}
}

func copySet(m map[H]bool) map[H]bool {
	c := make(map[H]bool, len(m))
	for k := range m {
		c[k] = true
	}
	return c
}

func (w *World) applyStumpy(n *Node, b *Block) {
	dels, proof := b.Dels, b.Proof
	if n.cfg.Relay == "reenc" {
		if d2, p2, ok := w.reencode(n, b); ok {
			dels, proof = d2, p2
		}
	}
	proof = n.upProof(proof, b.Pre.N)
	// (the forged variant is derived from the canonical proof, in which every
	// hash is needed: a re-encoded proof may carry unused trailing hashes, and
	// replacing one of those would not be a corruption)
	w.forgedStump(n, b, n.upProof(b.Proof, b.Pre.N))
	if w.stop || n.tainted {
		return
	}
	nb := &nodeBlk{preStump: copyStump(n.st)}
	n.blk[b.ID] = nb
	// stand-alone verification first (what a validating node does)
	var idx []int
	g := w.fp.begin("Verify", dels, proof.Targets, proof.Proof, n.st.Roots)
	err, _ := guard(func() error { var e error; idx, e = u.Verify(n.st, dels, proof); return e })
	g.end()
	w.count("verify_honest")
	if err != nil {
		w.blame(n, "verify-honest", "stand-alone Verify rejected an honest block proof: "+err.Error())
	} else if w.on("prove") && n.cfg.Relay == "" {
		want := b.Pre.Layout().TreesWith(b.Dels)
		if n.big() {
			k := len(n.bigRoots())
			for i := range want {
				want[i] += k
			}
		}
		if !sameIntSet(idx, want) {
			w.violate(n, "C02", "verify-root-indexes", fmt.Sprintf("Verify reported trees %v, targets lie in %v", idx, want))
		}
	}
	var ud u.UpdateData
	uDels, uAdds := dels, b.Adds
	if SubRng(b.Seed^uint64(n.idx+1)*0xad1a, "adjacent").Pct(20) && len(dels) > 0 && len(b.Adds) > 0 {
		// the block as one buffer: deleted hashes and added hashes are adjacent
		// sub-slices of the same backing array (the deletions' spare capacity IS the
		// additions), plus sentinels behind
		buf := make([]H, 0, len(dels)+len(b.Adds)+2)
		buf = append(append(buf, dels...), b.Adds...)
		buf = padH(buf)
		uDels, uAdds = buf[:len(dels)], buf[len(dels):len(dels)+len(b.Adds)]
		w.stats.Reach["stump_update_dels_and_adds_share_one_buffer"]++
	}
	g = w.fp.begin("Stump.Update", uDels, proof.Targets, proof.Proof, uAdds)
	err, _ = guard(func() error { var e error; ud, e = n.st.Update(uDels, uAdds, proof); return e })
	g.end()
	if err != nil {
		w.blame(n, "apply-err", fmt.Sprintf("Stump.Update failed on an honest block %d: %v", b.ID, err))
		n.tainted = true
		return
	}
	w.fp.track("UpdateData", ud.ToDestroy, ud.NewDelHash, ud.NewDelPos, ud.NewAddHash, ud.NewAddPos)
	nb.ud = ud
	if w.on("updatedata") && n.cfg.Relay == "" {
		w.checkUpdateData(n, b, n.downUD(ud, b.Pre.N, b.Post.N))
		if w.stop {
			return
		}
	}
	if n.cfg.Kind == "light" {
		w.lightUpdate(n, b, nb)
	}
}

func sameIntSet(a, b []int) bool {
	if len(a) != len(b) {
		return false
	}
	m := map[int]int{}
	for _, x := range a {
		m[x]++
	}
	for _, x := range b {
		m[x]--
	}
	for _, v := range m {
		if v != 0 {
			return false
		}
	}
	return true
}

// ---------------------------------------------------------------------------
// undo with oracles

func (w *World) undoBlock(n *Node, b *Block) {
	w.stats.Events++
	w.stats.Undos++
	w.logf("%s: undo block %d", n.name, b.ID)
	n.ops = append(n.ops, nodeOp{kind: "undo", block: b.ID})
	n.hasUndo = true
	n.ctxTarget, n.ctxSeed, n.twinCache = b.Parent, mix64(w.sc.Seed^uint64(w.stats.Events)*0x9e37^uint64(n.idx)<<32), nil
	pre := b.Pre
	switch n.cfg.Kind {
	case "stump":
		nb := n.blk[b.ID]
		n.st = copyStump(nb.preStump)
	case "light":
		w.lightUndo(n, b)
	case "pollard", "mapfull", "mappartial":
		prevRoots := padH(pre.Layout().Roots)
		uproof := b.Proof
		if !n.isPartial() && SubRng(b.Seed^uint64(n.idx+1)*0x0d0, "undoshape").Pct(30) {
			// a full forest has every hash itself: the call shape with the block's
			// targets only (the pointer forest never reads the proof hashes, the
			// map forest says "since we're full, we can just build the proofs")
			uproof = u.Proof{Targets: b.Proof.Targets}
			w.stats.Reach["undo_with_targets_only"]++
			if SubRng(b.Seed^uint64(n.idx+1)*0x0d1, "undowindow").Bool() {
				// ... as an empty window into a buffer that holds something else: no
				// hashes, but capacity (the caller's memory behind it is not the callee's)
				buf := make([]H, len(b.Proof.Proof)+3)
				for i := range buf {
					buf[i] = H{0xb0, 0xff, byte(i)}
				}
				uproof.Proof = buf[:0]
			}
		}
		g := w.fp.begin("Undo", b.Dels, uproof.Targets, uproof.Proof, prevRoots)
		err, _ := guard(func() error { return n.acc.Undo(uint64(len(b.Adds)), uproof, b.Dels, prevRoots) })
		g.end()
		if err != nil {
			w.violate(n, w.attr(n, "C06", "undo-err"), "undo-err", fmt.Sprintf("Undo of block %d failed: %v", b.ID, err))
			n.tainted = true
		}
		if n.isPartial() {
			for _, a := range b.Adds {
				delete(n.remembered, a)
			}
			for _, d := range b.Dels {
				n.remembered[d] = true
			}
		}
		preL, midL := b.Pre.Layout(), b.Mid.Layout()
		_ = preL
		for _, r := range midL.Roots {
			if r == zeroH && len(b.Adds) > 0 {
				w.stats.Reach["undo_restores_empty_root"]++
				break
			}
		}
	}
	if n.dead || w.stop {
		return
	}
	n.at = b.Parent
	w.checkNode(n, pre, "undo")
}

// ---------------------------------------------------------------------------
// attribution

// blame reports a forward-application mismatch, attributing it to the
// property that owns it given the node's provenance.
func (w *World) blame(n *Node, kind, detail string) {
	base := map[string]string{"roots": "C01", "apply-err": "C01", "verify-honest": "C02", "prove": "C02", "lookup": "C10"}[kind]
	w.violate(n, w.attr(n, base, kind), kind, detail)
}

// attr decides which property owns a mismatch of the given kind at node n.
// Clean provenance (only forward application of canonical blocks): the base
// property.  Otherwise differential twins decide: a fresh instance driven
// forward only to the same block (if it shows the mismatch too, the base
// property owns it), and a twin that repeats the node's operations without
// the restores.
func (w *World) attr(n *Node, base, kind string) string {
	if n.cfg.Relay == "reenc" && (base == "C01" || kind == "verify-honest") {
		// a node fed re-encoded proofs: if a twin fed canonical proofs is fine, C05 owns it
		if !w.twinShows(n, kind, "forward") {
			return "C05"
		}
		return base
	}
	if !n.hasUndo && !n.hasRestore && !n.hasCacheOps {
		return base
	}
	if w.inTwin {
		return base
	}
	if n.hasForged && !n.hasRestore && !w.twinShows(n, kind, "norestore") {
		// a twin that repeats every operation of the node except the forged
		// (rejected) messages is fine: a rejected call left something behind,
		// which the property that owns the oracle does not allow in any state
		return base
	}
	if w.twinShows(n, kind, "forward") {
		return base
	}
	if n.hasRestore {
		if w.twinShows(n, kind, "norestore") {
			if n.hasUndo {
				return "C06"
			}
			return "C09"
		}
		return "C13"
	}
	if n.hasUndo {
		if n.isPartial() && n.hasCacheOps && base == "C01" {
			// roots do not depend on caching: a twin without prune/ingest tells C06 from C09
			if w.twinShows(n, kind, "nocacheops") {
				return "C06"
			}
			return "C09"
		}
		return "C06"
	}
	return "C09"
}

// ---------------------------------------------------------------------------
// forged traffic: a message that must be rejected arrives before the honest one

// forgedTraffic delivers, with the scenario's probability, a corrupted version
// of block b to node n (which is in b's pre-state).  The library must reject
// it, and the rejected call must leave nothing behind: all of the node's
// oracles are evaluated against the unchanged model state afterwards.
//
//	verify   Verify(remember) with one proof hash or one deleted hash replaced
//	partial  VerifyPartialProof(remember=true) with one fetched hash replaced
//	modify   map forests: Modify whose deletion list carries an unknown hash
//	         behind tracked ones (rejected by its all-or-nothing precondition)
//
// afterVerify: called between the honest Verify(remember) and Modify of a
// partial forest (only the modify kind applies there: the deletions are cached).
func (w *World) forgedTraffic(n *Node, b *Block, afterVerify bool) {
	if w.sc.Forged <= 0 || len(b.Dels) == 0 || n.tainted || n.dead || w.inTwin {
		return
	}
	salt := uint64(0xf06ed)
	if afterVerify {
		salt = 0xf07ed
	}
	r := SubRng(b.Seed^uint64(n.idx+1)*salt, "forged")
	if !r.Pct(w.sc.Forged) {
		return
	}
	pre := b.Pre
	var fresh H
	x := r.Next()
	for i := range fresh {
		fresh[i] = byte(x >> (uint(i%8) * 8))
		if i%8 == 7 {
			x = mix64(x)
		}
	}
	fresh[0], fresh[31] = 0xfa, fresh[31]|1
	dels := padH(b.Dels)
	proof := u.Proof{Targets: padU(b.Proof.Targets), Proof: padH(b.Proof.Proof)}
	kind := "verify"
	switch {
	case afterVerify:
		kind = "modify"
	case n.isMap() && !n.isPartial() && r.Pct(40):
		kind = "modify"
	case n.isPartial() && r.Pct(35):
		kind = "partial"
	}
	var err error
	var pan bool
	what := ""
	switch kind {
	case "verify":
		if len(proof.Proof) > 0 && r.Bool() {
			proof.Proof[r.Intn(len(proof.Proof))] = fresh
			what = "a proof hash replaced"
		} else {
			dels[r.Intn(len(dels))] = fresh
			what = "a deleted hash replaced"
		}
		remember := n.isPartial() || (n.isMap() && r.Bool())
		g := w.fp.begin("Verify", dels, proof.Targets, proof.Proof)
		err, pan = guard(func() error { return n.acc.Verify(dels, proof, remember) })
		g.end()
	case "partial":
		var missing []uint64
		guard(func() error { missing = n.mp.GetMissingPositions(proof.Targets); return nil })
		L := pre.Layout()
		fetched := make([]H, 0, len(missing))
		for _, p := range missing {
			h, _ := L.HashAt(p, L.R)
			fetched = append(fetched, h)
		}
		if len(fetched) > 0 {
			fetched[r.Intn(len(fetched))] = fresh
			what = "a fetched hash replaced"
		} else {
			dels[r.Intn(len(dels))] = fresh
			what = "a deleted hash replaced"
		}
		fetched = padH(fetched)
		g := w.fp.begin("VerifyPartialProof", proof.Targets, dels, fetched)
		err, pan = guard(func() error { return n.mp.VerifyPartialProof(proof.Targets, dels, fetched, true) })
		g.end()
	case "modify":
		if !n.isMap() {
			return
		}
		k := 1 + r.Intn(len(dels))
		d2 := make([]H, 0, len(dels)+1)
		d2 = append(append(append(d2, dels[:k]...), fresh), dels[k:]...)
		dels = padH(d2)
		what = fmt.Sprintf("an unknown hash at index %d of the deletion list", k)
		leaves := make([]u.Leaf, len(b.Adds))
		for i := range leaves {
			leaves[i] = u.Leaf{Hash: b.Adds[i], Remember: r.Bool()}
		}
		g := w.fp.begin("Modify", dels, proof.Targets, proof.Proof, leaves)
		err, pan = guard(func() error { return n.acc.Modify(leaves, dels, proof) })
		g.end()
	}
	w.stats.Events++
	w.stats.Faults["forged_"+kind]++
	w.logf("%s: forged message before block %d (%s: %s) -> %v", n.name, b.ID, kind, what, err != nil)
	switch {
	case pan:
		// a panic on untrusted input is C04's matter; the node is rebuilt
		w.violate(n, "C04", "panic:forged-"+kind, fmt.Sprintf("%s with %s panicked: %v", kind, what, err))
		n.tainted = true
		return
	case err == nil:
		// accepting a false claim is C03's matter; the node's state is undefined now
		w.violate(n, "C03", "forged-accepted:"+kind, fmt.Sprintf("%s with %s was accepted", kind, what))
		n.tainted = true
		return
	}
	w.stats.Reach["forged_rejected_then_state_checked"]++
	n.hasForged = true
	w.checkNode(n, pre, "after-rejected-"+kind)
}

// forgedStump: the roots-only verifier receives a corrupted version of the
// block (one proof hash or deleted hash replaced) together with the block's
// additions.  Stump.Update must refuse it and leave the verifier state as it
// was; the honest block follows.
func (w *World) forgedStump(n *Node, b *Block, honest u.Proof) {
	if w.sc.Forged <= 0 || len(b.Dels) == 0 || n.tainted || w.inTwin {
		return
	}
	r := SubRng(b.Seed^uint64(n.idx+1)*0xf08ed, "forged-stump")
	if !r.Pct(w.sc.Forged) {
		return
	}
	var fresh H
	x := r.Next()
	for i := range fresh {
		fresh[i] = byte(x >> (uint(i%8) * 8))
		if i%8 == 7 {
			x = mix64(x)
		}
	}
	fresh[0], fresh[31] = 0xfb, fresh[31]|1
	dels := padH(b.Dels)
	proof := u.Proof{Targets: padU(honest.Targets), Proof: padH(honest.Proof)}
	what := "a deleted hash replaced"
	if len(proof.Proof) > 0 && r.Bool() {
		proof.Proof[r.Intn(len(proof.Proof))] = fresh
		what = "a proof hash replaced"
	} else {
		dels[r.Intn(len(dels))] = fresh
	}
	g := w.fp.begin("Stump.Update", dels, proof.Targets, proof.Proof, b.Adds)
	err, pan := guard(func() error { _, e := n.st.Update(dels, b.Adds, proof); return e })
	g.end()
	w.stats.Events++
	w.stats.Faults["forged_update"]++
	w.logf("%s: forged block %d (%s) -> refused=%v", n.name, b.ID, what, err != nil)
	switch {
	case pan:
		w.violate(n, "C04", "panic:forged-update", fmt.Sprintf("Stump.Update with %s panicked: %v", what, err))
		n.tainted = true
		return
	case err == nil:
		w.violate(n, "C03", "forged-accepted:update", fmt.Sprintf("Stump.Update with %s was accepted", what))
		n.tainted = true
		return
	}
	n.hasForged = true
	w.stats.Reach["forged_rejected_then_state_checked"]++
	w.checkNode(n, b.Pre, "after-refused-update")
}
