package main

import (
	"encoding/json"
	"os"
	"path/filepath"
	"sort"
)

var levels = map[string]string{
	"C01": "exploration", "C02": "exploration", "C03": "fault_enumeration", "C04": "fault_enumeration",
	"C05": "exploration", "C06": "exploration", "C07": "exploration", "C08": "exploration",
	"C09": "exploration", "C10": "exploration", "C11": "exploration", "C12": "exploration",
	"C13": "fault_enumeration", "C14": "exploration", "C17": "exploration",
}

func writeEvidence(prop, tier string, seed uint64, engines []Engine, a *aggregate, wall float64) error {
	var rules, real, stub []string
	seenR, seenS := map[string]bool{}, map[string]bool{}
	for _, e := range engines {
		r, re, st := e.Describe()
		rules = append(rules, e.Name()+": "+r)
		for _, x := range re {
			if !seenR[x] {
				seenR[x] = true
				real = append(real, x)
			}
		}
		for _, x := range st {
			if !seenS[x] {
				seenS[x] = true
				stub = append(stub, x)
			}
		}
	}
	rule := ""
	for i, r := range rules {
		if i > 0 {
			rule += " || "
		}
		rule += r
	}
	var samples []interface{}
	for _, s := range a.samples {
		var v interface{}
		if json.Unmarshal(s, &v) == nil {
			samples = append(samples, v)
		}
	}
	if len(samples) == 0 {
		samples = append(samples, map[string]string{"note": "no sample small enough to include was produced in this run"})
	}
	perHour := 0.0
	if wall > 0 {
		perHour = float64(a.runs) / wall * 3600
	}
	known := map[string]int{}
	for k, v := range a.stats.Known {
		known[k] = v
	}
	cov := map[string]interface{}{
		"evaluations":         a.runs,
		"distinct_nontrivial": len(a.digests),
		"rule":                rule,
		"samples":             samples,
		"exhaustive":          false,
		"nontrivial_runs":     a.nontrivial,
		"runs_per_hour":       int64(perHour),
		"seeds_per_hour":      int64(perHour),
		"simulated_time_units": a.stats.SimTime,
		"events":              a.stats.Events,
		"blocks_generated":    a.stats.Blocks,
		"block_applications":  a.stats.Applies,
		"block_undos":         a.stats.Undos,
		"faults_injected":     sortedCounts(a.stats.Faults),
		"reach_probes":        sortedCounts(a.stats.Reach),
		"oracle_evaluations":  sortedCounts(a.stats.OracleChecks),
		"distinct_model_states": len(a.stats.StateKeys),
		"distinct_model_shapes": len(a.stats.ShapeKeys),
		"foreign_property_observations": sortedCounts(a.stats.Foreign),
		"known_finding_hits":  sortedCounts(known),
		"engines":             a.perEngine,
		"components_real":     real,
		"components_stub":     stub,
	}
	assumptions := []string{
		"the reference model (slot forest, /verif/sim/model.go) is a faithful reading of the property text; it shares no code with the library",
		"seeded search samples the scenario space; a clean batch is evidence, not proof",
		"SHA-512/256 collisions are ignored; leaf hashes are treated as digests: two live leaves never carry the same hash, and no leaf shares a 12-byte prefix with another node's hash, except in the profiles where all leaves share a 27-byte prefix; the hash of a deleted leaf may come back. A leaf that carries the whole hash of an internal node or root is given to forest instances only in the C01, C05, C14 and C08 profiles (roots, block application, proof helpers, cached-proof undo: the library satisfies these with such leaves); look-ups, proving, the partial forest's storage and restore are not judged on forests holding such a leaf. What works on roots and proofs alone (AddProof, GetProofSubset, GetMissingPositions, stand-alone Verify, Stump.Update and its update data, Proof.Update/Undo, and GetMissingPositions + VerifyPartialProof on a fresh partial forest created from roots) is asked about states with such a leaf in every profile that has the node kind",
	}
	for _, e := range engines {
		if ea, ok := e.(interface{ Assumptions() []string }); ok {
			assumptions = ea.Assumptions()
		}
		if ex, ok := e.(interface {
			ExtraCoverage(*Stats) map[string]interface{}
		}); ok {
			for k, v := range ex.ExtraCoverage(a.stats) {
				cov[k] = v
			}
		}
	}
	ev := map[string]interface{}{
		"property_id": prop,
		"tier":        tier,
		"seed":        int64(seed & 0x7fffffffffffffff),
		"level":       levels[prop],
		"coverage":    cov,
		"assumptions": assumptions,
		"wall_s":     wall,
		"violations": a.confirmed,
	}
	dir := filepath.Join(verifDir(), "evidence")
	os.MkdirAll(dir, 0o755)
	b, err := json.MarshalIndent(ev, "", " ")
	if err != nil {
		return err
	}
	return os.WriteFile(filepath.Join(dir, prop+".json"), b, 0o644)
}

func sortedCounts(m map[string]int) map[string]int {
	// encoding/json sorts map keys; copy so nil maps become {}
	out := map[string]int{}
	keys := make([]string, 0, len(m))
	for k := range m {
		keys = append(keys, k)
	}
	sort.Strings(keys)
	for _, k := range keys {
		out[k] = m[k]
	}
	return out
}
